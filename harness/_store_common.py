'''Shared helpers of the bounded harnesses for the shelve store (C06, C07, C08, C17)

Everything DAWGIE specific in here is a *driver* or an *independent observer*:

* ``Store``     real shelve back end (``dawgie.db.shelve``) in a temp dir
* in-process replacement of the socket layer: ``Connector.__do`` pickles the
  request, feeds the frame to a real ``comms.Worker.dataReceived`` that sits on
  a fake transport and unpickles the framed answer (no sockets, no reactor)
* ``HTask/HAlg/HSV/HValue``  minimal, picklable implementers of the DAWGIE API
* independent re-implementations used by the oracles (``parse_key``,
  ``file_digest``, ``resolve_prime``, ``check_tables`` ...) - these never call
  ``dawgie.db.shelve.util`` helpers
'''

import os
import sys

REPO = os.environ.get('VERIF_REPO', '/repo')
if REPO + '/Python' not in sys.path:
    # the caller is expected to set PYTHONPATH; make a missing one fail loudly
    pass

import warnings  # noqa: E402

warnings.simplefilter('ignore')

import dawgie  # noqa: E402

assert dawgie.__file__.startswith(REPO + '/Python/'), (
    'wrong dawgie imported: ' + dawgie.__file__
)

import dawgie.context  # noqa: E402
import dawgie.db  # noqa: E402
import dawgie.db.shelve  # noqa: E402
import dawgie.db.shelve.comms as comms  # noqa: E402
import dawgie.db.shelve.state  # noqa: E402
import dawgie.db.util  # noqa: E402

import hashlib  # noqa: E402
import logging  # noqa: E402
import pickle  # noqa: E402
import shutil  # noqa: E402
import struct  # noqa: E402
import tempfile  # noqa: E402

logging.disable(logging.CRITICAL)

DBI = dawgie.db.shelve.state.DBI
TABLES = ['target', 'task', 'alg', 'state', 'value']

# --------------------------------------------------------------------------
# in-process transport
# --------------------------------------------------------------------------


class FakeTransport:
    def __init__(self):
        self.buf = b''
        self.lost = False

    def write(self, data):
        self.buf += data

    def loseConnection(self):
        self.lost = True


def _inproc_do(request):
    '''serve one Connector request synchronously by a real comms.Worker'''
    msg = pickle.dumps(request, pickle.HIGHEST_PROTOCOL)
    worker = comms.Worker(None)
    transport = FakeTransport()
    worker.transport = transport
    worker.dataReceived(struct.pack('>I', len(msg)) + msg)
    if len(transport.buf) < 4:
        raise RuntimeError('no response from Worker for ' + repr(request))
    length = struct.unpack('>I', transport.buf[:4])[0]
    return pickle.loads(transport.buf[4 : 4 + length])


class _Lock:  # what comms.acquire would return (a socket)
    pass


_INSTALLED = [False]


def install():
    '''monkey-patch the process once: no sockets, no reactor'''
    if _INSTALLED[0]:
        return
    _INSTALLED[0] = True
    setattr(comms.Connector, '_Connector__do', staticmethod(_inproc_do))
    comms.acquire = lambda name: _Lock()
    comms.release = lambda s: True
    comms.DBSerializer.open = staticmethod(lambda: None)
    os.environ.setdefault('DAWGIE_DOCKERIZED_AE_GIT_REVISION', 'harness')


# -- the external programs md5sum / sha1sum ---------------------------------
# C06/C08/C17 do not examine the digest mechanism; they may replace the two
# external executables by an in-process equivalent that prints the same text
# (C07 always runs the real executables).
# (a tree that computes the digests without the external programs has no `subprocess` in the module: nothing to replace)
_HAS_SUBPROCESS = hasattr(dawgie.db.util, 'subprocess')
_REAL_CHECK_OUTPUT = dawgie.db.util.subprocess.check_output if _HAS_SUBPROCESS else None


def _fast_check_output(cmd, *args, **kwds):
    if (
        isinstance(cmd, list)
        and len(cmd) == 3
        and cmd[0] in ('md5sum', 'sha1sum')
        and cmd[1] == '-b'
    ):
        h = hashlib.md5() if cmd[0] == 'md5sum' else hashlib.sha1()
        with open(cmd[2], 'rb') as f:
            h.update(f.read())
        return (h.hexdigest() + ' *' + cmd[2] + '\n').encode('utf-8')
    return _REAL_CHECK_OUTPUT(cmd, *args, **kwds)


class _SubprocessProxy:
    def __init__(self, real):
        self.__real = real

    def __getattr__(self, name):
        if name == 'check_output':
            return _fast_check_output
        return getattr(self.__real, name)


def fast_digest(on=True):
    import subprocess

    if not _HAS_SUBPROCESS:
        return
    dawgie.db.util.subprocess = _SubprocessProxy(subprocess) if on else subprocess


# --------------------------------------------------------------------------
# store in a temp dir
# --------------------------------------------------------------------------


# Every Store stands for a pipeline started afresh on its own directories: module-level containers of the database
# code (none on the pinned tree; a cache or memo table in a changed one) start as they were at import, so that a
# history never depends on what earlier cases of the same harness process left behind and its witness replays alone.
import copy  # noqa: E402
import dawgie.db.shelve.model  # noqa: E402
import dawgie.db.shelve.search  # noqa: E402
import dawgie.db.shelve.util  # noqa: E402

# (the attribute dawgie.db.shelve.search is a function that shadows the submodule of that name)
_STATE_MODULES = [dawgie.db.shelve, comms, sys.modules['dawgie.db.shelve.search'], dawgie.db.shelve.util, dawgie.db.shelve.model, dawgie.db.shelve.state, dawgie.db.util]
_MODULE_STATE = [
    (m, k, copy.deepcopy(v))
    for m in _STATE_MODULES
    for k, v in list(vars(m).items())
    if isinstance(v, (list, dict, set)) and not k.startswith('__')
]


def reset_module_state():
    for m, k, v in _MODULE_STATE:
        setattr(m, k, copy.deepcopy(v))


class Store:
    def __init__(self, root=None, prefix='verif_store_'):
        install()
        reset_module_state()
        self.owner = root is None
        self.root = root if root else tempfile.mkdtemp(prefix=prefix)
        for d in ('db', 'dbs', 'logs', 'stg'):
            os.makedirs(os.path.join(self.root, d), exist_ok=True)
        self.activate()

    def activate(self):
        dawgie.context.db_impl = 'shelve'
        dawgie.context.db_name = 'h'
        dawgie.context.db_path = os.path.join(self.root, 'db')
        dawgie.context.db_rotate_path = os.path.join(self.root, 'db')
        dawgie.context.data_dbs = os.path.join(self.root, 'dbs')
        dawgie.context.data_log = os.path.join(self.root, 'logs')
        dawgie.context.data_stg = os.path.join(self.root, 'stg')

    @property
    def dbs(self):
        return os.path.join(self.root, 'dbs')

    @property
    def stg(self):
        return os.path.join(self.root, 'stg')

    def open(self):
        self.activate()
        dawgie.db.close()
        dawgie.db.open()

    def close(self):
        dawgie.db.close()

    def reopen(self):
        dawgie.db.close()
        dawgie.db.open()

    def clone(self, prefix='verif_clone_'):
        '''copy of a *closed* store'''
        root = tempfile.mkdtemp(prefix=prefix)
        shutil.rmtree(root)
        shutil.copytree(self.root, root)
        return Store(root)

    def destroy(self):
        try:
            dawgie.db.close()
        except Exception:  # pylint: disable=broad-except
            pass
        shutil.rmtree(self.root, True)


def as_worker(flag=True):
    '''switch the role of this process between Foreman (tables local) and
    worker (``dawgie.db.reopen()``: every table access goes via Connector)'''
    if flag:
        dawgie.db.reopen()
    else:
        setattr(DBI(), '_DBI__reopened', False)


# --------------------------------------------------------------------------
# minimal implementers of the DAWGIE API (module level: picklable)
# --------------------------------------------------------------------------


class HValue(dawgie.Value):
    def __init__(self, payload=None, ver=(1, 1, 0), extra=None):
        self._version_ = dawgie.VERSION(*ver)
        self.payload = payload
        if extra is not None:
            self.extra = extra

    def features(self):
        return []


class HSV(dawgie.StateVector):
    def __init__(self, name, ver=(1, 1, 0)):
        dict.__init__(self)
        self._hname = name
        self._version_ = dawgie.VERSION(*ver)

    def name(self):
        return self._hname

    def view(self, caller, visitor):
        return


class HAlg(dawgie.Algorithm):
    def __init__(self, name, ver=(1, 1, 0), svs=()):
        self._hname = name
        self._version_ = dawgie.VERSION(*ver)
        self._svs = list(svs)

    def name(self):
        return self._hname

    def previous(self):
        return []

    def run(self, ds, ps):
        return

    def state_vectors(self):
        return self._svs


class HTask(dawgie.Task):
    def __init__(self, name, runid, target):
        dawgie.Task.__init__(self, name, 0, runid, target)

    def list(self):
        return []


def make_alg(name, ver, svspec):
    '''svspec: [(svname, svver, [(vname, vver, payload), ...]), ...]'''
    svs = []
    for svn, svv, vals in svspec:
        sv = HSV(svn, svv)
        for vn, vv, payload in vals:
            sv[vn] = HValue(payload, vv)
        svs.append(sv)
    return HAlg(name, ver, svs)


def dataset(alg, task, run, target):
    return dawgie.db.connect(alg, HTask(task, run, target), target)


# --------------------------------------------------------------------------
# independent observers
# --------------------------------------------------------------------------


def parse_key(k):
    '''"<parent>:parent___<name>___version:<d.i.b>" -> (parent, name, ver)'''
    parent = None
    ver = None
    if ':parent___' in k:
        p, k = k.split(':parent___', 1)
        parent = int(p)
    if '___version:' in k:
        k, v = k.rsplit('___version:', 1)
        ver = tuple(int(x) for x in v.split('.'))
    return parent, k, ver


def file_digest(path):
    with open(path, 'rb') as f:
        data = f.read()
    return hashlib.md5(data).hexdigest() + '_' + hashlib.sha1(data).hexdigest()


def snapshot():
    '''persisted tables and in-memory indices of the open DBI, as plain data'''
    tabs = {n: dict(getattr(DBI().tables, n)) for n in TABLES + ['prime']}
    idxs = {n: list(getattr(DBI().indices, n)) for n in TABLES}
    return tabs, idxs


def check_tables(tabs, idxs):
    '''R1: name->id and id->name mutually inverse, ids exactly 0..n-1

    returns a list of (what, detail) problems (empty when fine)'''
    bad = []
    for n in TABLES:
        tab, idx = tabs[n], idxs[n]
        ids = sorted(tab.values())
        if ids != list(range(len(tab))):
            bad.append((n + '.ids', ids))
        if len(idx) != len(tab):
            bad.append((n + '.len', (len(idx), len(tab))))
        for k, i in tab.items():
            if not (isinstance(i, int) and 0 <= i < len(idx) and idx[i] == k):
                bad.append((n + '.index[table[k]]!=k', (k, i)))
        for i, k in enumerate(idx):
            if tab.get(k, None) != i:
                bad.append((n + '.table[index[i]]!=i', (i, k)))
    return bad


def _ast_tuple(s):
    import ast

    return ast.literal_eval(s)


def resolve_prime(tabs):
    '''every prime entry through the chain, independently of dawgie helpers

    returns (entries, problems); entries are
    (run, target, task, (alg, ver), (sv, ver), (val, ver), blob)'''
    inv = {n: {i: k for k, i in tabs[n].items()} for n in TABLES}
    entries = []
    bad = []
    for ks, blob in tabs['prime'].items():
        try:
            key = _ast_tuple(ks)
            run, tid, kid, aid, sid, vid = key
            if not all(isinstance(x, int) for x in key):
                raise ValueError('non int component')
            tp, tn, tv = parse_key(inv['target'][tid])
            kp, kn, kv = parse_key(inv['task'][kid])
            ap, an, av = parse_key(inv['alg'][aid])
            sp, sn, sv = parse_key(inv['state'][sid])
            vp, vn, vv = parse_key(inv['value'][vid])
            if tp is not None or kp is not None:
                raise ValueError('target/task with parent')
            if ap != kid or sp != aid or vp != sid:
                raise ValueError(
                    f'parent chain broken: alg.parent={ap} task={kid} '
                    f'sv.parent={sp} alg={aid} val.parent={vp} sv={sid}'
                )
            entries.append((run, tn, kn, (an, av), (sn, sv), (vn, vv), blob))
        except Exception as e:  # pylint: disable=broad-except
            bad.append((ks, f'{type(e).__name__}: {e}'))
    return entries, bad


def store_files(dbs):
    return sorted(
        fn for fn in os.listdir(dbs) if os.path.isfile(os.path.join(dbs, fn))
    )


def deep_eq(a, b):
    '''structural equality that also compares types (True == 1 is False here)'''
    if type(a) is not type(b):
        return False
    if isinstance(a, dict):
        return (
            len(a) == len(b)
            and all(k in b for k in a)
            and all(deep_eq(a[k], b[k]) for k in a)
        )
    if isinstance(a, (list, tuple)):
        return len(a) == len(b) and all(deep_eq(x, y) for x, y in zip(a, b))
    if isinstance(a, float):
        return a == b or (a != a and b != b)
    if isinstance(a, HValue):
        # _version_ is re-taken from the class on load and _version_seal_ is
        # the framework's own record of it: neither is user content
        skip = ('_version_', '_version_seal_')
        da = {k: v for k, v in a.__dict__.items() if k not in skip}
        db = {k: v for k, v in b.__dict__.items() if k not in skip}
        return deep_eq(da, db)
    return a == b


def bump(ver, comp):
    '''DAWGIE rule: incrementing a counter resets the ones to its right'''
    d, i, b = ver
    if comp == 0:
        return (d + 1, 0, 0)
    if comp == 1:
        return (d, i + 1, 0)
    return (d, i, b + 1)


def jsonable(x):
    if isinstance(x, (str, int, float, bool)) or x is None:
        return x
    if isinstance(x, bytes):
        return 'bytes:' + x.hex()
    if isinstance(x, (list, tuple)):
        return [jsonable(e) for e in x]
    if isinstance(x, dict):
        return {str(k): jsonable(v) for k, v in x.items()}
    if isinstance(x, (set, frozenset)):
        return sorted(jsonable(e) for e in x)
    return repr(x)


# wall-clock budgets: the sizes are chosen to finish well inside them on an idle
# machine; on an overloaded one the harness stops scheduling further cases
# (and says so) instead of overrunning its time limit
BUDGET_S = {'quick': 15.0, 'thorough': 230.0}


def expired(deadline):
    import time

    return deadline is not None and time.time() > deadline


class Violations:
    '''collects violations, one (the first/smallest) per signature'''

    def __init__(self, limit=40):
        self.by_sig = {}
        self.count = 0
        self.limit = limit

    def add(self, clause, signature, inp, observed, expected):
        self.count += 1
        key = (clause, signature)
        size = len(repr(inp))
        if key in self.by_sig and self.by_sig[key][0] <= size:
            self.by_sig[key][1]['occurrences'] += 1
            return
        occ = self.by_sig[key][1]['occurrences'] + 1 if key in self.by_sig else 1
        self.by_sig[key] = (
            size,
            {
                'clause': clause,
                'signature': signature,
                'input': jsonable(inp),
                'observed': jsonable(observed),
                'expected': jsonable(expected),
                'occurrences': occ,
            },
        )

    def merge(self, other_list):
        for v in other_list:
            key = (v['clause'], v['signature'])
            size = len(repr(v['input']))
            self.count += v.get('occurrences', 1)
            if key in self.by_sig:
                occ = self.by_sig[key][1]['occurrences'] + v.get('occurrences', 1)
                if self.by_sig[key][0] <= size:
                    self.by_sig[key][1]['occurrences'] = occ
                    continue
                v = dict(v)
                v['occurrences'] = occ
            self.by_sig[key] = (size, v)

    def as_list(self, per_clause=8):
        """at most per_clause signatures of every clause, smallest inputs first"""
        by_clause = {}
        for size, v in self.by_sig.values():
            by_clause.setdefault(v['clause'], []).append((size, v['signature'], v))
        out = []
        for clause in sorted(by_clause):
            kept = sorted(by_clause[clause], key=lambda t: (t[0], t[1]))[:per_clause]
            dropped = len(by_clause[clause]) - len(kept)
            for _, _, v in kept:
                if dropped:
                    v = dict(v, further_signatures_of_clause=dropped)
                out.append(v)
        return out[: self.limit]
