'''C13 - the database lock is exclusive, survives client crashes, is granted.

Bounded run-time harness: real ``dawgie.db.shelve.comms.Worker`` protocol
instances on fake transports sharing the real ``dawgie.context`` lock bit.
Every poll timer and every delayed ``LoopingCall.stop`` is stepped by hand.
'''

import copy
import itertools
import os
import pickle
import random
import struct
import time

try:
    from . import _proto_common as pc
except ImportError:  # run as a plain script
    import _proto_common as pc  # type: ignore

import dawgie.context
import dawgie.db.lockview
import dawgie.db.shelve.comms as comms
import dawgie.db.shelve.state
import dawgie.pl.message
import dawgie.security
import twisted.internet.reactor
import twisted.internet.task

from dawgie.db.shelve.enums import Func, Mutex

PROPERTY = 'C13'
BOUND = (
    'all interleavings of {acquire k, poll k, release k, disconnect k, '
    'stop-timer k} for <= 3 concurrent comms.Worker connections (slots are '
    're-used by fresh connections), every path exhaustively up to depth 6 '
    '(quick) / 8 (thorough) modulo client symmetry, every distinct state '
    '(one shortest history each) extended by every enabled event up to '
    'depth 9 (quick) / 14 (thorough), plus seed-sampled histories of '
    'depth 8 (quick) / 12 (thorough); plus every script of <= 3 (quick) / 4 '
    '(thorough) '
    'environment steps around the real blocking client comms.acquire/'
    'release on a fake socket'
)
CLAUSES = [
    'C13.exclusive',
    'C13.told',
    'C13.lockbit',
    'C13.release',
    'C13.crash.holder',
    'C13.crash.waiter',
    'C13.grant',
    'C13.client',
]

KINDS = ('acq', 'poll', 'rel', 'disc', 'timer')
POLL_PERIOD = 3.0

pc.quiet()
pc.set_tls(True)


# ---------------------------------------------------------------- plumbing

_PENDING = {}  # LoopingCall -> list of delayed callables (the 1 s stop)


def _call_later(_delay, fun, *args, **kwds):
    '''replacement of reactor.callLater: park the call with its owner'''
    owner = getattr(fun, '__self__', None)
    _PENDING.setdefault(id(owner), []).append((fun, args, kwds))
    return None


twisted.internet.reactor.callLater = _call_later



def _reason(k):
    """what twisted hands to connectionLost: a Failure wrapping ConnectionDone (clean close, e.g. the peer process
    died) or ConnectionLost (unclean), alternating deterministically over steps and clients"""
    import twisted.internet.error
    import twisted.python.failure

    exc = twisted.internet.error.ConnectionDone() if k % 2 == 0 else twisted.internet.error.ConnectionLost()
    return twisted.python.failure.Failure(exc)


class _Engine:  # DBI().task_engine without opening shelve files
    @staticmethod
    def install():
        dbi = dawgie.db.shelve.state.DBI()
        setattr(dbi, '_DBI__task_engine', dawgie.db.lockview.TaskLockEngine())


def _request(func, value=None):
    msg = pickle.dumps(
        comms.COMMAND(func, None, None, value), pickle.HIGHEST_PROTOCOL
    )
    return struct.pack('>I', len(msg)) + msg


class Conn:
    '''one client connection: the real protocol + the ghost the oracle keeps'''

    # pylint: disable=too-many-instance-attributes
    def __init__(self, slot, gen):
        self.slot = slot
        self.gen = gen
        self.name = 'c%d.%d' % (slot, gen)
        # the id a client gives with its request says what it is doing, not who it is: slots 0 and 2 (and every later
        # connection of a slot) give the same one, slot 1 another
        self.idname = 'update: task.alg%d' % (slot % 2)
        self.proto = comms.Worker(pc.IPV4('client%d' % slot, 1000 + gen))
        self.transport = pc.FakeTransport('client%d' % slot, 1000 + gen)
        self.proto.transport = self.transport
        self.lc = getattr(self.proto, '_Worker__looping_call')
        self.clock = twisted.internet.task.Clock()
        self.lc.clock = self.clock
        # ghost (what the property talks about)
        self.alive = True  # connectionLost not yet delivered
        self.acquired = False  # sent an acquire request
        self.asked_release = False
        self.granted = 0  # number of Mutex.unlock messages received
        self.holding = False
        self.stop_fired = False

    def has_lock(self):
        return getattr(self.proto, '_Worker__has_lock', None)

    def pending(self):
        return _PENDING.get(id(self.lc), [])

    def fire_timers(self):
        calls = _PENDING.pop(id(self.lc), [])
        for fun, args, kwds in calls:
            fun(*args, **kwds)
        if calls:
            self.stop_fired = True


class Violation(Exception):
    def __init__(self, clause, signature, observed, expected, step):
        Exception.__init__(self, clause + ':' + signature)
        self.clause = clause
        self.signature = signature
        self.observed = observed
        self.expected = expected
        self.step = step


# module-level containers of the code under test (none on the pinned tree) start every history as they were at import:
# a case must not depend on what earlier cases left behind, or its witness would not replay in a fresh process
_COMMS_STATE = {
    k: copy.deepcopy(v) for k, v in vars(comms).items() if isinstance(v, (list, dict, set)) and not k.startswith('__')
}


def _reset_module_state():
    for k, v in _COMMS_STATE.items():
        setattr(comms, k, copy.deepcopy(v))


class World:
    '''executes one history on the real code and checks the oracle per step'''

    def __init__(self, nslots=3):
        _PENDING.clear()
        _Engine.install()
        _reset_module_state()
        dawgie.context.db_lock = False
        self.slots = [None] * nslots
        self.all = []
        self.holder = None  # ghost: connection that was told it holds
        self.step_no = -1
        self.trace = []
        self.errors = []
        # ghost: waiters whose poll found the lock free and was not granted, in the current run of consecutive polls
        self.denied = []

    # -- enabledness is decided from the ghost only (never from the code)
    def enabled(self, ev):
        kind, k = ev
        c = self.slots[k]
        if kind == 'acq':
            return c is None or not c.alive
        if c is None:
            return False
        if kind == 'poll':
            return c.acquired and not c.stop_fired
        if kind == 'rel':
            return c.alive and c.acquired and self._readable(c)
        if kind == 'disc':
            return c.alive
        if kind == 'timer':
            return bool(c.pending())
        raise ValueError(kind)

    @staticmethod
    def _readable(c):
        # Twisted stops reading once the server called loseConnection()
        return c.transport.lost == 0

    def fail(self, clause, signature, observed, expected):
        raise Violation(clause, signature, observed, expected, self.step_no)

    def do(self, ev):
        # pylint: disable=too-many-branches,too-many-statements
        self.step_no += 1
        kind, k = ev
        c = self.slots[k]
        must_grant = False
        if kind == 'acq':
            if c is not None:
                self._timers(c)  # the old generation is long gone
            c = Conn(k, 0 if c is None else c.gen + 1)
            self.slots[k] = c
            self.all.append(c)
            c.acquired = True
            self._data(c, _request(Func.acquire, c.idname))
        elif kind == 'poll':
            must_grant = (
                self.holder is None
                and c.alive
                and c.granted == 0
                and not c.asked_release
                and self._readable(c)
            )
            c.clock.advance(POLL_PERIOD)
        elif kind == 'rel':
            was_holder = self.holder is c
            c.asked_release = True
            self._data(c, _request(Func.release))
            if was_holder:
                self.holder = None
                c.holding = False
                if dawgie.context.db_lock:
                    self.fail(
                        'C13.release',
                        'holder-release-keeps-lock',
                        'db_lock still set after the holder released',
                        'lock free',
                    )
        elif kind == 'disc':
            was_holder = self.holder is c
            self._lost(c)
            if was_holder:
                self.holder = None
                c.holding = False
                if dawgie.context.db_lock:
                    self.fail(
                        'C13.crash.holder',
                        'holder-disconnect-keeps-lock',
                        'db_lock still set after the holder disconnected',
                        'lock free',
                    )
        elif kind == 'timer':
            self._timers(c)
        else:
            raise ValueError(kind)

        self._observe()
        # "whenever the lock is free SOME waiting client is granted it at its next poll": the order among several
        # waiters is the implementation's choice, so a poll that is not granted is held against the code only once
        # every live waiter has polled in turn, the lock staying free and nothing else happening in between
        if must_grant and self.holder is None:
            if c not in self.denied:
                self.denied.append(c)
            waiting = [
                w for w in self.slots
                if w is not None and w.alive and w.acquired and w.granted == 0 and not w.asked_release and self._readable(w)
            ]
            if all(w in self.denied for w in waiting):
                self.fail(
                    'C13.grant',
                    'free-lock-not-granted',
                    {
                        'polled_in_turn': [w.name for w in self.denied],
                        'waiting': [w.name for w in waiting],
                        'holder_after': None,
                        'db_lock': bool(dawgie.context.db_lock),
                    },
                    'the lock was free and every waiting client polled: one of them must have been granted it',
                )
        else:
            self.denied = []
        self._invariants()

    # -- an exception escaping a callback is handled as Twisted does: a
    #    delayed call logs it, dataReceived additionally drops the connection
    def _timers(self, c):
        try:
            c.fire_timers()
        except Exception as exc:  # pylint: disable=broad-except
            c.stop_fired = True
            self.errors.append((self.step_no, c.name, 'timer', repr(exc)))

    def _lost(self, c):
        c.alive = False
        try:
            c.proto.connectionLost(_reason(self.step_no + sum(map(ord, c.name))))
        except Exception as exc:  # pylint: disable=broad-except
            self.errors.append((self.step_no, c.name, 'lost', repr(exc)))

    def _data(self, c, data):
        try:
            c.proto.dataReceived(data)
        except Exception as exc:  # pylint: disable=broad-except
            self.errors.append((self.step_no, c.name, 'data', repr(exc)))
            if c.alive:
                if self.holder is c:
                    self.holder = None
                    c.holding = False
                self._lost(c)

    def _observe(self):
        for c in self.all:
            for m in c.transport.new_frames():
                self.trace.append((self.step_no, c.name, repr(m)))
                if isinstance(m, Mutex) and m == Mutex.unlock:
                    self._granted(c)
                elif isinstance(m, bool) and m is True:
                    # reply to a release: the sender no longer holds
                    if self.holder is c:
                        self.holder = None
                        c.holding = False

    def _granted(self, c):
        c.granted += 1
        if not c.alive:
            self.fail(
                'C13.crash.waiter',
                'grant-after-disconnect',
                '%s was told it holds the lock after its connection dropped'
                % c.name,
                'a disconnected waiter abandons its request',
            )
        if self.holder is not None and self.holder is not c:
            self.fail(
                'C13.exclusive',
                'two-holders',
                '%s told it holds the lock while %s holds it'
                % (c.name, self.holder.name),
                'at most one holder',
            )
        if c.has_lock() is False or not dawgie.context.db_lock:
            self.fail(
                'C13.told',
                'told-without-holding',
                {
                    'client': c.name,
                    'has_lock': c.has_lock(),
                    'db_lock': bool(dawgie.context.db_lock),
                },
                'Mutex.unlock is sent only to the connection owning the lock',
            )
        self.holder = c
        c.holding = True

    def _invariants(self):
        owners = [c.name for c in self.all if c.has_lock()]
        if len(owners) > 1:
            self.fail(
                'C13.exclusive',
                'two-owners',
                owners,
                'at most one connection owns the lock',
            )
        for c in self.all:
            if not c.alive and c.has_lock():
                self.fail(
                    'C13.crash.waiter'
                    if c.granted == 0
                    else 'C13.crash.holder',
                    'dead-connection-owns-lock',
                    c.name + ' owns the lock after connectionLost',
                    'a dropped connection owns nothing',
                )
        bit = bool(dawgie.context.db_lock)
        if bit != (self.holder is not None):
            self.fail(
                'C13.lockbit',
                'lock-set-without-holder' if bit else 'holder-without-lock-bit',
                {
                    'db_lock': bit,
                    'holder': self.holder.name if self.holder else None,
                },
                'db_lock is set exactly while some client was told it holds '
                'the lock and has neither released nor disconnected',
            )
        for c in self.all:
            hl = c.has_lock()
            if hl is not None and bool(hl) != (self.holder is c):
                self.fail(
                    'C13.told',
                    'ownership-differs-from-what-client-was-told',
                    {'client': c.name, 'has_lock': hl, 'told': c.holding},
                    'a connection owns the lock exactly when it was told so',
                )

    def signature(self):
        '''state reached: the ghost plus every scalar the real protocol
        object keeps (so that merging equal states loses no behaviour)'''
        return (
            bool(dawgie.context.db_lock),
            None if self.holder is None else self.holder.slot,
            tuple(
                None
                if c is None
                else (
                    c.alive,
                    c.acquired,
                    c.asked_release,
                    c.granted > 0,
                    c.holding,
                    c.stop_fired,
                    len(c.pending()),
                    c.transport.lost > 0,
                    bool(c.lc.running),
                    tuple(
                        sorted(
                            (k, repr(v))
                            for k, v in vars(c.proto).items()
                            if isinstance(v, (bool, int, dict, bytes))
                            or v is None
                        )
                    ),
                )
                for c in self.slots
            ),
        )


def run_history(history, nslots=3):
    '''returns (violation|None, executed prefix, state signature)'''
    w = World(nslots)
    done = []
    try:
        for ev in history:
            ev = tuple(ev)
            if not w.enabled(ev):
                continue
            done.append(ev)
            w.do(ev)
    except Violation as v:
        return v, done, w.signature(), w.trace
    return None, done, w.signature(), w.trace


# ---------------------------------------------------------------- generators


def _canonical_events(w, nslots):
    '''enabled events, clients introduced in index order (symmetry)'''
    used = 0
    for c in w.slots:
        if c is not None:
            used += 1
    out = []
    for k in range(nslots):
        if k > used:
            break
        for kind in KINDS:
            if w.enabled((kind, k)):
                out.append((kind, k))
    return out


def enumerate_histories(depth, nslots, first=None):
    '''all maximal-or-depth-bounded enabled histories, by replay'''

    def rec(prefix):
        w = World(nslots)
        for ev in prefix:
            w.do(ev)
        evs = _canonical_events(w, nslots)
        if len(prefix) == depth or not evs:
            yield prefix
            return
        for ev in evs:
            yield from rec(prefix + [ev])

    yield from rec(list(first) if first else [])


def _explore(depth, nslots, prefix, deadline):
    '''DFS by replay from a prefix; every node is one execution of the real
    code (prefix replay), every step is checked'''
    cases = 0
    sigs = set()
    found = {}
    samples = []
    complete = True
    stack = [list(prefix)]
    while stack:
        if time.time() > deadline:
            complete = False
            break
        hist = stack.pop()
        w = World(nslots)
        vio = None
        try:
            for ev in hist:
                w.do(ev)
        except Violation as v:
            vio = v
        cases += 1
        sigs.add((w.signature(), len(hist)))
        if vio is not None:
            key = (vio.clause, vio.signature)
            if key not in found or len(hist) < len(found[key]['history']):
                found[key] = {'history': hist, 'v': vio}
            continue
        if len(hist) < depth:
            for ev in reversed(_canonical_events(w, nslots)):
                stack.append(hist + [ev])
        elif cases % 997 == 0 and len(samples) < 3:
            samples.append(hist)
    return cases, sigs, found, samples, complete


def _merged_bfs(depth, nslots, deadline):
    '''breadth-first over *states*: one shortest history per distinct
    state signature is kept and extended by every enabled event'''
    cases = 0
    found = {}
    seen = {}
    frontier = [[]]
    complete = True
    w = World(nslots)
    seen[w.signature()] = []
    for _level in range(depth):
        nxt = []
        for hist in frontier:
            if time.time() > deadline:
                complete = False
                break
            w = World(nslots)
            for ev in hist:
                w.do(ev)
            for ev in _canonical_events(w, nslots):
                w2 = World(nslots)
                cand = hist + [ev]
                cases += 1
                try:
                    for e in cand:
                        w2.do(e)
                except Violation as v:
                    key = (v.clause, v.signature)
                    if key not in found:
                        found[key] = {
                            'history': cand,
                            'observed': v.observed,
                            'expected': v.expected,
                            'step': v.step,
                        }
                    continue
                sig = w2.signature()
                if sig not in seen:
                    seen[sig] = cand
                    nxt.append(cand)
        frontier = nxt
        if not complete or not frontier:
            break
    return cases, set(seen), found, complete


def _explore_job(args):
    depth, nslots, prefix, budget = args
    cases, sigs, found, samples, complete = _explore(
        depth, nslots, prefix, time.time() + budget
    )
    return (
        cases,
        sigs,
        {
            k: {
                'history': v['history'],
                'observed': v['v'].observed,
                'expected': v['v'].expected,
                'step': v['v'].step,
            }
            for k, v in found.items()
        },
        samples,
        complete,
    )


def _random_history(rng, length, nslots):
    w = World(nslots)
    hist = []
    vio = None
    try:
        for _ in range(length):
            evs = [
                (kind, k)
                for k in range(nslots)
                for kind in KINDS
                if w.enabled((kind, k))
            ]
            if not evs:
                break
            ev = rng.choice(evs)
            hist.append(ev)
            w.do(ev)
    except Violation as v:
        vio = v
    return hist, vio, w.signature()


def _shrink(history, clause, signature, nslots=3):
    hist = list(history)
    changed = True
    while changed:
        changed = False
        for i in range(len(hist)):
            cand = hist[:i] + hist[i + 1 :]
            v = run_history(cand, nslots)[0]
            if v is not None and (v.clause, v.signature) == (clause, signature):
                hist = cand
                changed = True
                break
    return hist


# ---------------------------------------------------------------- client side


class _Blocked(Exception):
    pass


class FakeSocket:
    '''what dawgie.security.connect returns: wired straight to a Worker'''

    def __init__(self, scene, conn):
        self.scene = scene
        self.conn = conn
        self.pos = 0
        self.closed = False

    def sendall(self, data):
        self.conn.proto.dataReceived(bytes(data))

    def recv(self, n):
        while True:
            buf = self.conn.transport.data()
            if self.pos < len(buf):
                out = buf[self.pos : self.pos + n]
                self.pos += len(out)
                return out
            self.scene.blocked(self)

    def close(self):
        if not self.closed:
            self.closed = True
            if self.conn.alive:
                self.conn.alive = False
                self.conn.proto.connectionLost(_reason(0))


class Scene:
    '''client A holds the lock; client B calls the real blocking
    comms.acquire; whenever B would block in recv() the next step of the
    script runs (the rest of the world moving on)'''

    STEPS = ('pollB', 'relA', 'discA', 'timerA', 'timerB')

    def __init__(self, script):
        _PENDING.clear()
        _Engine.install()
        _reset_module_state()
        dawgie.context.db_lock = False
        self.script = list(script)
        self.conns = []
        self.sockets = {}
        self.free_at_poll = False  # oracle: lock was free when B polled
        self.a_done = False
        self.nested = False
        self.a_polls = 0

    def connect(self, _address):
        c = Conn(len(self.conns), 0)
        self.conns.append(c)
        s = FakeSocket(self, c)
        self.sockets[c.name] = s
        return s

    def blocked(self, sock):
        if len(self.conns) < 2:
            # A alone on a free lock: let its poll timer fire a few times
            self.a_polls += 1
            if self.a_polls > 3:
                raise _Blocked()
            self.conns[0].clock.advance(POLL_PERIOD)
            return
        if self.nested or not self.script:
            raise _Blocked()
        step = self.script.pop(0)
        a, b = self.conns[0], self.conns[1]
        if step == 'pollB':
            if self.a_done:
                self.free_at_poll = True
            b.clock.advance(POLL_PERIOD)
        elif step == 'relA':
            if not self.a_done:
                self.nested = True
                try:
                    comms.release(self.sockets[a.name])
                finally:
                    self.nested = False
                self.a_done = True
        elif step == 'discA':
            if a.alive:
                a.alive = False
                a.proto.connectionLost(_reason(1))
            self.a_done = True
        elif step == 'timerA':
            a.fire_timers()
        elif step == 'timerB':
            b.fire_timers()
        del sock


def run_client_script(script):
    '''returns violation dict or None'''
    scene = Scene(script)
    dawgie.security.connect = scene.connect
    try:
        sa = comms.acquire('A')
    except _Blocked:
        sa = None
    a = scene.conns[0]
    if not a.has_lock() or sa is None:
        return {
            'clause': 'C13.client',
            'signature': 'first-acquire-not-granted',
            'observed': 'acquire() on a free lock '
            + (
                'still blocks after 3 polls'
                if sa is None
                else 'returned without owning the lock'
            ),
            'expected': 'lock granted',
        }
    returned = False
    try:
        sb = comms.acquire('B')
        returned = True
    except _Blocked:
        sb = None
    b = scene.conns[1]
    if returned:
        if not (b.has_lock() and dawgie.context.db_lock) or a.has_lock():
            return {
                'clause': 'C13.client',
                'signature': 'acquire-returned-without-lock',
                'observed': {
                    'B.has_lock': b.has_lock(),
                    'A.has_lock': a.has_lock(),
                    'db_lock': bool(dawgie.context.db_lock),
                },
                'expected': 'comms.acquire returns only once its connection '
                'owns the lock',
            }
        if not scene.free_at_poll:
            return {
                'clause': 'C13.client',
                'signature': 'acquire-returned-while-held',
                'observed': 'B.acquire() returned though A never released',
                'expected': 'B blocks while A holds the lock',
            }
        ok = comms.release(sb)
        if ok is not True or dawgie.context.db_lock or b.has_lock():
            return {
                'clause': 'C13.client',
                'signature': 'release-did-not-free',
                'observed': {
                    'reply': repr(ok),
                    'db_lock': bool(dawgie.context.db_lock),
                },
                'expected': 'release() by the holder returns True and frees',
            }
    elif scene.free_at_poll:
        return {
            'clause': 'C13.client',
            'signature': 'acquire-starved',
            'observed': 'B polled while the lock was free and still blocks',
            'expected': 'B.acquire() returns after a poll on a free lock',
        }
    return None


def client_scripts(maxlen):
    for n in range(0, maxlen + 1):
        for script in itertools.product(Scene.STEPS, repeat=n):
            yield list(script)


# ---------------------------------------------------------------- interface


def _vio_record(clause, signature, history, observed, expected, step=None):
    return {
        'clause': clause,
        'signature': signature,
        'input': {
            'kind': 'history',
            'history': [list(e) for e in history],
            'nslots': 3,
        },
        'observed': pc.jsonable(observed),
        'expected': pc.jsonable(expected),
        'step': step,
    }


def run(tier: str, seed: int) -> dict:
    # pylint: disable=too-many-locals,too-many-branches,too-many-statements
    t0 = time.time()
    thorough = tier == 'thorough'
    depth = 8 if thorough else 6
    budget = 150.0 if thorough else 8.0
    nslots = 3
    cases = 0
    sigs = set()
    found = {}
    samples = []
    exhaustive = True

    # 1. exhaustive interleavings (modulo the order in which clients appear)
    if thorough:
        import multiprocessing

        prefixes = list(enumerate_histories(3, nslots))
        nproc = min(16, os.cpu_count() or 1)
        jobs = [(depth, nslots, p, budget) for p in prefixes]
        with multiprocessing.get_context('fork').Pool(nproc) as pool:
            results = pool.map(_explore_job, jobs, chunksize=1)
        # the nodes above the prefixes (depth < 3) in this process
        results.append(_explore_job((2, nslots, [], budget)))
    else:
        results = [_explore_job((depth, nslots, [], budget))]
    for cs, sg, fd, sm, complete in results:
        cases += cs
        sigs |= sg
        exhaustive = exhaustive and complete
        for h in sm:
            if len(samples) < 3:
                samples.append({'kind': 'history', 'history': h})
        for key, rec in fd.items():
            if key not in found or len(rec['history']) < len(
                found[key]['input']['history']
            ):
                found[key] = _vio_record(
                    key[0],
                    key[1],
                    rec['history'],
                    rec['observed'],
                    rec['expected'],
                    rec['step'],
                )

    # 1b. breadth-first over distinct states (one history per state)
    mdepth = 14 if thorough else 9
    mcases, msigs, mfound, mcomplete = _merged_bfs(
        mdepth, nslots, t0 + (220.0 if thorough else 12.0)
    )
    cases += mcases
    sigs |= {(sg, -1) for sg in msigs}
    for key, rec in mfound.items():
        if key not in found:
            found[key] = _vio_record(
                key[0],
                key[1],
                rec['history'],
                rec['observed'],
                rec['expected'],
                rec['step'],
            )

    # 2. sampled deeper histories
    rng = random.Random(seed)
    nrand = 20000 if thorough else 1500
    length = 12 if thorough else 8
    stop = t0 + (270.0 if thorough else 14.0)
    for i in range(nrand):
        if time.time() > stop:
            break
        hist, vio, sig = _random_history(rng, length, nslots)
        cases += 1
        sigs.add((sig, len(hist)))
        if i == 0:
            samples.append({'kind': 'history', 'history': hist})
        if vio is not None:
            key = (vio.clause, vio.signature)
            if key not in found:
                small = _shrink(hist, vio.clause, vio.signature, nslots)
                v2 = run_history(small, nslots)[0] or vio
                found[key] = _vio_record(
                    key[0], key[1], small, v2.observed, v2.expected, v2.step
                )

    # 3. the real blocking client functions on a fake socket
    real_connect = dawgie.security.connect
    nscripts = 0
    try:
        for script in client_scripts(4 if thorough else 3):
            nscripts += 1
            cases += 1
            out = run_client_script(script)
            sigs.add(('client', tuple(script)))
            if out is not None:
                key = (out['clause'], out['signature'])
                if key not in found:
                    out['input'] = {'kind': 'client', 'script': script}
                    out['observed'] = pc.jsonable(out['observed'])
                    found[key] = out
    finally:
        dawgie.security.connect = real_connect
    samples.append({'kind': 'client', 'script': ['pollB', 'relA', 'pollB']})

    return {
        'cases': cases,
        'distinct': len(sigs),
        'rule': (
            'DFS by replay over enabled events (acq/poll/rel/disc/timer x '
            'client slot; a new slot index only after the lower ones were '
            'used), every prefix executed on fresh real comms.Worker objects '
            'and checked after every event; distinct = distinct (abstract '
            'state reached, history length) pairs plus distinct client '
            'scripts; trivial (all events disabled) histories do not occur '
            'because disabled events are never generated'
        ),
        'exhaustive': bool(exhaustive),
        'samples': samples[:5],
        'violations': list(found.values()),
        'clauses': list(CLAUSES),
        'depth': depth,
        'merged_depth': mdepth,
        'merged_states': len(msigs),
        'merged_complete': bool(mcomplete),
        'client_scripts': nscripts,
        'wall_s': round(time.time() - t0, 2),
    }


def replay(case: dict) -> dict:
    inp = case.get('input', case)
    if inp.get('kind') == 'client':
        real_connect = dawgie.security.connect
        try:
            out = run_client_script(list(inp['script']))
        finally:
            dawgie.security.connect = real_connect
        return {
            'reproduced': out is not None,
            'observed': pc.jsonable(out['observed']) if out else None,
            'expected': out['expected'] if out else 'no violation',
        }
    vio, done, _sig, trace = run_history(
        [tuple(e) for e in inp['history']], inp.get('nslots', 3)
    )
    if vio is None:
        return {
            'reproduced': False,
            'observed': {'executed': [list(e) for e in done], 'trace': trace},
            'expected': 'no violation',
        }
    return {
        'reproduced': True,
        'clause': vio.clause,
        'signature': vio.signature,
        'observed': pc.jsonable(vio.observed),
        'expected': pc.jsonable(vio.expected),
        'step': vio.step,
        'trace': pc.jsonable(trace),
    }


if __name__ == '__main__':
    import json
    import sys

    print(
        json.dumps(
            run(sys.argv[1] if len(sys.argv) > 1 else 'quick', 0), indent=1
        )[:4000]
    )
