'''Shared helpers for the protocol harnesses c11 / c13 / c14.

Nothing here knows a property; it only supplies the deterministic fakes
(transport, addresses, PGP) and the frame codec used to decode what the real
DAWGIE code wrote to a fake transport.
'''

import collections
import logging
import os
import pickle
import struct
import sys

REPO = os.environ.get('VERIF_REPO', '/repo')
if REPO + '/Python' not in sys.path:
    # the caller sets PYTHONPATH; this is only a net for multiprocessing spawn
    sys.path.insert(0, REPO + '/Python')

import dawgie  # noqa: E402  pylint: disable=wrong-import-position

assert dawgie.__file__.startswith(REPO + '/Python/'), (
    'dawgie imported from %s, expected under %s/Python/'
    % (dawgie.__file__, REPO)
)

import dawgie.security  # noqa: E402  pylint: disable=wrong-import-position

IPV4 = collections.namedtuple('IPV4', ['host', 'port'])


def quiet():
    '''DAWGIE logs at critical level for ordinary events; silence it.'''
    logging.disable(logging.CRITICAL)


def set_tls(flag: bool):
    '''make dawgie.security.use_tls() answer flag (True: no legacy handshake)'''
    dawgie.security.use_tls = (lambda: True) if flag else (lambda: False)


class FakeTransport:
    '''records what the protocol under test does to its transport'''

    def __init__(self, host='h', port=1):
        self.chunks = []  # bytes objects in write order
        self.lost = 0  # number of loseConnection() calls
        self.aborted = 0
        self.peer = IPV4(host, port)
        self._decoded = 0  # read cursor for frames()
        self.disconnecting = False
        self.connected = True

    # -- what protocols call
    def write(self, data):
        self.chunks.append(bytes(data))

    def writeSequence(self, seq):  # pylint: disable=invalid-name
        for s in seq:
            self.write(s)

    def loseConnection(self):  # pylint: disable=invalid-name
        self.lost += 1
        self.disconnecting = True

    def abortConnection(self):  # pylint: disable=invalid-name
        self.aborted += 1
        self.lost += 1
        self.disconnecting = True

    def getPeer(self):  # pylint: disable=invalid-name
        return self.peer

    def getHost(self):  # pylint: disable=invalid-name
        return IPV4('server', 0)

    # -- what the harness reads
    def data(self) -> bytes:
        return b''.join(self.chunks)

    def new_frames(self):
        '''decode the complete frames written since the previous call'''
        buf = self.data()
        out = []
        pos = self._decoded
        while pos + 4 <= len(buf):
            n = struct.unpack('>I', buf[pos : pos + 4])[0]
            if pos + 4 + n > len(buf):
                break
            out.append(pickle.loads(buf[pos + 4 : pos + 4 + n]))
            pos += 4 + n
        self._decoded = pos
        return out


def frame(payload: bytes) -> bytes:
    '''4-byte big-endian length prefix + payload (the wire format of all
    three channels)'''
    return struct.pack('>I', len(payload)) + payload


def decode_all(buf: bytes):
    '''independent reference decoder: list of payloads, trailing rest'''
    out = []
    pos = 0
    while pos + 4 <= len(buf):
        n = struct.unpack('>I', buf[pos : pos + 4])[0]
        if pos + 4 + n > len(buf):
            break
        out.append(buf[pos + 4 : pos + 4 + n])
        pos += 4 + n
    return out, buf[pos:]


# ---------------------------------------------------------------- fake PGP


class _Verified:  # pylint: disable=too-few-public-methods
    def __init__(self, valid):
        self.valid = valid
        self.status = 'fake'


class _Crypt:  # pylint: disable=too-few-public-methods
    def __init__(self, data):
        self.data = data
        self.status = 'fake'
        self.ok = True


class FakePGP:
    '''stand-in for gnupg.GPG: a "signature" is the envelope SIGNED[...]

    sign(m)      -> SIGNED[m]
    verify(d)    -> valid iff d is exactly such an envelope
    decrypt(d)   -> the inside of the envelope (b'' when there is none)
    A forged message is FORGED[m] (same length as a signed one).
    '''

    HEAD = b'SIGNED['
    FAKE = b'FORGED['
    TAIL = b']'

    def __init__(self):
        self.calls = []

    @classmethod
    def envelope(cls, message, valid=True):
        if isinstance(message, str):
            message = message.encode()
        return (cls.HEAD if valid else cls.FAKE) + message + cls.TAIL

    def sign(self, message, **_kwds):
        self.calls.append('sign')
        return _Crypt(self.envelope(message))

    def _ok(self, data):
        return (
            isinstance(data, (bytes, bytearray))
            and data.startswith(self.HEAD)
            and data.endswith(self.TAIL)
            and len(data) >= len(self.HEAD) + len(self.TAIL)
        )

    def verify(self, data):
        self.calls.append('verify')
        return _Verified(self._ok(data))

    def decrypt(self, data, **_kwds):
        self.calls.append('decrypt')
        if self._ok(data):
            return _Crypt(bytes(data[len(self.HEAD) : -len(self.TAIL)]))
        return _Crypt(b'')


def install_fake_pgp():
    pgp = FakePGP()
    dawgie.security._PGP = pgp  # pylint: disable=protected-access
    return pgp


def jsonable(x):
    '''best-effort JSON-serialisable rendering of decoded objects'''
    if isinstance(x, (str, int, float, bool)) or x is None:
        return x
    if isinstance(x, bytes):
        return x.hex()
    if isinstance(x, (list, tuple)):
        return [jsonable(i) for i in x]
    if isinstance(x, dict):
        return {str(k): jsonable(v) for k, v in x.items()}
    return repr(x)
