'''C17 - search returns exactly the matching entries, in order, page by page

Bounded run-time harness: ``dawgie.db.search().find`` / ``.facet`` (the final
methods of ``SearchFacade`` -> ``_scrub`` -> shelve ``SearchImplementation``)
on a real shelve store with <= 12 prime entries, compared with a brute-force
filter of ``dawgie.db._prime_keys()`` that is written from the property
statement.  ``SearchFacade._scrub`` is additionally checked on its own: the
set of run ids an expression denotes never changes.
'''

import itertools
import os
import random
import time

from . import _store_common as sc

import dawgie
import dawgie.db
from dawgie.db.basis import Params, Range, SearchFacade

PROPERTY = 'C17'
BOUND = (
    'real shelve stores with 12 prime entries (1 hand-made + seeded random ones) over 2 names per level '
    '(one a prefix of the other) and runs in {1,2,3,4,6,9}; name constraints per level from {None,[n1],[n2],[n1,n2]} '
    '(all 1024 combinations) plus unknown names; run-id expressions from a grammar of ints {0..12} and ranges a:b with '
    'a,b from small sets incl. open, empty, reversed, overlapping, adjacent, nested, blanks, and list/Range-object '
    'forms (81 single atoms, all 6561 pairs for _scrub, ~150 for find); every (index, limit) with index <= total+1 and '
    'limit in {None,1,2,3,total,total+1}; marker -1 ("latest") and the all-blank expression are left out of the find oracle'
)

CLAUSES = [
    'C17.match',  # exactly the matching entries, collapsed to state-vector granularity
    'C17.order',  # ascending run-id order
    'C17.total',  # total == full match count (on every page)
    'C17.page',  # page (index, limit) == full[index:index+limit]; pages concatenate
    'C17.scrub',  # normalising never changes the denoted run-id set
    'C17.facet',  # facet: sorted distinct names of the matching entries
]

LEVELS = ['targets', 'tasks', 'algs', 'svs', 'vals']
NAMES = {
    'targets': ['X', 'XY'],
    'tasks': ['K', 'KL'],
    'algs': ['A', 'AB'],
    'svs': ['S', 'ST'],
    'vals': ['V', 'VW'],
}
UNKNOWN = 'Q'
RUNS = [1, 2, 3, 4, 6, 9]
UNIVERSE = range(0, 16)

STORE0 = [
    [1, 'X', 'K', 'A', 'S', 'V'],
    [1, 'X', 'K', 'A', 'S', 'VW'],
    [1, 'XY', 'K', 'A', 'S', 'V'],
    [2, 'X', 'K', 'AB', 'S', 'V'],
    [2, 'X', 'KL', 'A', 'ST', 'V'],
    [3, 'X', 'K', 'A', 'S', 'V'],
    [3, 'XY', 'KL', 'AB', 'ST', 'VW'],
    [4, 'X', 'K', 'A', 'ST', 'V'],
    [6, 'X', 'K', 'A', 'S', 'V'],
    [6, 'X', 'K', 'A', 'S', 'VW'],
    [9, 'XY', 'K', 'AB', 'S', 'V'],
    [9, 'X', 'KL', 'AB', 'ST', 'VW'],
]


def random_store(rng):
    space = [[r] + list(n) for r in RUNS for n in itertools.product(*[NAMES[lv] for lv in LEVELS])]
    # favour collisions: few runs, so that several entries share a run
    runs = rng.sample(RUNS, rng.choice([2, 3, 4, 6]))
    space = [e for e in space if e[0] in runs]
    return sorted(rng.sample(space, 12))


# --------------------------------------------------------------------------
# run-id expressions: encoding, denotation (independent), generation
# --------------------------------------------------------------------------


def decode(enc):
    '''JSON encoding -> the object handed to Params.runids'''
    if enc is None:
        return None
    if 's' in enc:
        return enc['s']
    if 'i' in enc:
        return enc['i']
    if 'r' in enc:
        return Range(enc['r'][0], enc['r'][1])
    if 'l' in enc or 't' in enc:
        items = [Range(x[1], x[2]) if isinstance(x, list) else x for x in enc.get('l', enc.get('t'))]
        return items if 'l' in enc else tuple(items)
    raise ValueError(enc)


def _in_range(start, stop, n):
    return start <= n and (stop is None or n < stop)


def denote(enc):
    '''the set of run ids (within UNIVERSE) an expression stands for

    a:b is the half-open interval [a,b) (``basis.Range``), a missing a is 0, a
    missing b is unbounded, blanks denote nothing'''
    if enc is None:
        return None
    atoms = []
    if 's' in enc:
        for tok in enc['s'].split(','):
            tok = tok.strip()
            if not tok:
                continue
            if ':' in tok:
                a, b = tok.split(':')
                atoms.append((int(a) if a.strip() else 0, int(b) if b.strip() else None))
            else:
                atoms.append(int(tok))
    elif 'i' in enc:
        atoms.append(enc['i'])
    elif 'r' in enc:
        atoms.append(tuple(enc['r']))
    else:
        for x in enc.get('l', enc.get('t')):
            atoms.append((x[1], x[2]) if isinstance(x, list) else x)
    out = set()
    for at in atoms:
        for n in UNIVERSE:
            if (isinstance(at, tuple) and _in_range(at[0], at[1], n)) or at == n:
                out.add(n)
    return out


def denote_scrubbed(runids):
    '''denotation of what _scrub produced (a list of ints and Range objects)'''
    out = set()
    for x in runids:
        for n in UNIVERSE:
            if isinstance(x, Range):
                if _in_range(x.start, x.stop, n):
                    out.add(n)
            elif x == n:
                out.add(n)
    return out


INTS = [0, 1, 2, 3, 4, 6, 7, 9, 12]
STARTS = ['', 0, 1, 2, 3, 5, 6, 10]
STOPS = ['', 1, 2, 3, 4, 6, 7, 10, 13]


def string_atoms():
    return [str(i) for i in INTS] + [f'{a}:{b}' for a in STARTS for b in STOPS]


def find_expressions():
    '''the expressions used against data (JSON encodings); all-blank left out'''
    atoms = string_atoms()
    out = [{'s': a} for a in atoms]
    pairs = [
        '1:3,2:5', '2:5,1:3', '1:2,2:4', '1:3,6:10', '6:10,1:3', '2:,1:3', '1:4,2:3', '2:3,1:4', '1:3,1:3', ':2,9', ':3,6:',
        '3:,:2', '4:2,1:3', '2:2,3', '5:3,6:4', '1:3,2', '1:3,6', '2,1:3', '5:7,1,9', '6:,2', '1,2,3,4', '9,1', '1,1,1', '7,12',
        '1:2,3:4,6:7', '1:4,3:7,6:10', '0:1,1:2,2:3', '3:5,1:4,9', '10:,0:2,4',
    ]
    out += [{'s': p} for p in pairs]
    blanks = [' 1 , 3 ', '1,,3', '1,', ',2', ' 2 : 5 ', '1:3, ,6', ' :3', '6: ', ',,4,,', '2:5 ,']
    out += [{'s': b} for b in blanks]
    out += [
        {'l': [1, 3]}, {'l': [3, 1, 3]}, {'l': [['r', 1, 3]]}, {'l': [['r', 1, 3], 6]}, {'l': [6, ['r', 1, 3]]}, {'r': [2, 5]}, {'i': 3},
        {'l': [['r', 2, None]]}, {'l': [['r', 0, 2], ['r', 1, 4]]}, {'l': [['r', 3, 1]]}, {'t': [1, 2]}, {'l': [['r', 1, 3], ['r', 3, 6]]},
        {'l': [['r', 2, None], ['r', 0, 1], 9]}, {'r': [6, None]}, {'i': 7}, {'l': [['r', 1, 2], ['r', 4, 7], 3, 9]}, {'t': [['r', 2, 4], 6]},
    ]
    return out


def scrub_expressions(rng, ntriples):
    atoms = string_atoms()
    for e in find_expressions():
        yield e
    for b in ['', ' ', ',', ' , ,']:
        yield {'s': b}
    for a, b in itertools.product(atoms, repeat=2):
        yield {'s': a + ',' + b}
    for _ in range(ntriples):
        k = rng.choice([3, 3, 4, 5])
        toks = [rng.choice(atoms) for _ in range(k)]
        if rng.random() < 0.3:
            toks.insert(rng.randrange(k), rng.choice(['', ' ']))
        yield {'s': rng.choice([',', ' ,', ', ']).join(toks)}
    # object forms
    rs = [(a if a != '' else 0, b if b != '' else None) for a in STARTS for b in STOPS]
    for _ in range(ntriples // 4):
        items = []
        for _ in range(rng.randrange(1, 5)):
            items.append(rng.choice(INTS) if rng.random() < 0.4 else ['r', *rng.choice(rs)])
        yield {'l': items}


def expr_kind(enc):
    if enc is None:
        return 'none'
    if 's' in enc:
        s = enc['s']
        toks = [t.strip() for t in s.split(',')]
        kinds = set()
        for t in toks:
            if not t:
                kinds.add('blank')
            elif ':' in t:
                a, b = t.split(':')
                kinds.add('open-range' if not a.strip() or not b.strip() else 'range')
            else:
                kinds.add('int')
        return 'str:' + '+'.join(sorted(kinds))
    if 'i' in enc:
        return 'obj:int'
    if 'r' in enc:
        return 'obj:Range'
    kinds = {'Range' if isinstance(x, list) else 'int' for x in enc.get('l', enc.get('t'))}
    return ('list:' if 'l' in enc else 'tuple:') + '+'.join(sorted(kinds))


# --------------------------------------------------------------------------
# store + oracle
# --------------------------------------------------------------------------


def add_entries(entries, start=0):
    for n, (run, tn, kn, an, sn, vn) in enumerate(entries, start):
        alg = sc.make_alg(an, (1, 1, 0), [(sn, (1, 1, 0), [(vn, (1, 1, 0), n)])])
        sc.dataset(alg, kn, run, tn).update()


def build_store(entries):
    store = sc.Store(prefix='verif_c17_')
    store.open()
    add_entries(entries)
    return store


def prime_entries():
    '''brute force source: db._prime_keys() -> [(run, t, k, a, s, v)]'''
    out = []
    for k in dawgie.db._prime_keys():  # pylint: disable=protected-access
        parts = k.split('.')
        out.append((int(parts[0]), *parts[1:]))
    return out


def matches(entry, query, skip=None):
    ids = denote(query['runids'])
    if skip != 'runids' and ids is not None and entry[0] not in ids:
        return False
    for i, lv in enumerate(LEVELS):
        want = query[lv]
        if lv != skip and want is not None and entry[i + 1] not in want:
            return False
    return True


def expected_find(entries, query):
    hit = {e[:5] for e in entries if matches(e, query)}
    return sorted(hit)


def fmt(e):
    return '.'.join([str(e[0])] + list(e[1:]))


def params_of(query):
    return Params(
        runids=decode(query['runids']),
        targets=query['targets'],
        tasks=query['tasks'],
        algs=query['algs'],
        svs=query['svs'],
        vals=query['vals'],
    )


def query_kind(query):
    '''coarse, stable description of the kind of query'''
    names = [lv for lv in LEVELS if query[lv]]
    unknown = any(UNKNOWN in query[lv] for lv in names)
    return 'runids=' + expr_kind(query['runids']) + (';unknown-name' if unknown else '')


class Checker:
    def __init__(self, entries_spec, deadline=None):
        self.deadline = deadline
        self.skipped = 0
        self.spec = entries_spec
        self.entries = prime_entries()
        self.engine = dawgie.db.search()
        self.execs = 0
        self.found = []
        self.sigs = set()
        self.sequence = None  # (plan, seed) of the query sequence this checker is part of, see run_store
        self.growth = None  # {'first': n, 'stride': k}: the store held only its first n entries when the queries were first asked

    def flag(self, clause, signature, inp, observed, expected):
        inp = dict(inp, store=self.spec)
        if self.sequence is not None:
            inp['sequence'] = {'plan': self.sequence[0], 'seed': self.sequence[1]}
        if self.growth is not None:
            inp['growth'] = dict(self.growth)
        self.found.append({'clause': clause, 'signature': signature, 'input': inp, 'observed': observed, 'expected': expected})

    def find(self, query, index, limit):
        self.execs += 1
        return self.engine.find(params_of(query), index, limit)

    def check_find(self, query, pages, concat=True):
        '''pages: "all" or a list of (index, limit)'''
        if sc.expired(self.deadline):
            self.skipped += 1
            return
        inp = {'kind': 'find', 'query': query}
        self.sigs.add(('find', repr(query)))
        want = expected_find(self.entries, query)
        want_items = sorted(fmt(e) for e in want)
        try:
            full = self.find(query, 0, None)
        except Exception as e:  # pylint: disable=broad-except
            self.flag('C17.match', f'find-raised-{type(e).__name__}:{query_kind(query)}', inp, repr(e), want_items)
            return
        items = list(full.items)
        if sorted(items) != want_items:
            missing = sorted(set(want_items) - set(items))
            extra = sorted(set(items) - set(want_items))
            dup = len(items) != len(set(items))
            what = '+'.join(w for w, c in (('missing', missing), ('extra', extra), ('duplicates', dup)) if c)
            self.flag('C17.match', f'{what}:{query_kind(query)}', inp, items, want_items)
        runs = [int(i.split('.')[0]) for i in items]
        if runs != sorted(runs):
            self.flag('C17.order', 'not-ascending', inp, items, 'ascending run id')
        if full.total != len(want):
            self.flag('C17.total', f'full-list:{query_kind(query)}', inp, full.total, len(want))
        n = len(items)
        if pages == 'all':
            pages = [(i, l) for l in (None, 1, 2, 3, n, n + 1) for i in range(0, n + 2) if l != 0]
        for index, limit in pages:
            if limit == 0:
                continue
            pinp = dict(inp, index=index, limit=limit)
            try:
                page = self.find(query, index, limit)
            except Exception as e:  # pylint: disable=broad-except
                self.flag('C17.page', f'find-raised-{type(e).__name__}', pinp, repr(e), 'a page')
                continue
            exp = items[index:] if limit is None else items[index : index + limit]
            if list(page.items) != exp:
                sig = ('index>0' if index else 'index=0') + (',limit' if limit is not None else ',nolimit')
                self.flag('C17.page', sig, pinp, list(page.items), exp)
            if page.total != len(want):
                self.flag('C17.total', 'on-page', pinp, page.total, len(want))
        # consecutive pages concatenate to the full list
        for limit in (1, 2, 3) if concat else ():
            cat, index = [], 0
            while index < max(n, 1):
                cat.extend(self.find(query, index, limit).items)
                index += limit
            if cat != items:
                self.flag('C17.page', f'concatenation-limit', dict(inp, limit=limit), cat, items)

    def check_facet(self, query, level):
        if sc.expired(self.deadline):
            self.skipped += 1
            return
        q = dict(query)
        q[level] = []
        inp = {'kind': 'facet', 'query': q}
        self.sigs.add(('facet', repr(q)))
        i = LEVELS.index(level) + 1
        want = sorted({e[i] for e in self.entries if matches(e, q, skip=level)})
        self.execs += 1
        try:
            got = self.engine.facet(params_of(q))
        except Exception as e:  # pylint: disable=broad-except
            self.flag('C17.facet', f'facet-raised-{type(e).__name__}:{level}', inp, repr(e), want)
            return
        if list(got) != want:
            self.flag('C17.facet', f'{level}:{query_kind(query)}', inp, list(got), want)


def check_scrub(enc, execs, found):
    execs[0] += 1
    p = Params(runids=decode(enc), targets=['X'], tasks=None, algs=['A', 'AB'], svs=None, vals=[])
    inp = {'kind': 'scrub', 'runids': enc}
    try:
        q = SearchFacade._scrub(p)  # pylint: disable=protected-access
    except Exception as e:  # pylint: disable=broad-except
        found.append({'clause': 'C17.scrub', 'signature': f'raised-{type(e).__name__}:{expr_kind(enc)}', 'input': inp, 'observed': repr(e), 'expected': sorted(denote(enc))})
        return
    want = denote(enc)
    got = denote_scrubbed(q.runids)
    if got != want:
        found.append({'clause': 'C17.scrub', 'signature': f'denotation-changed:{expr_kind(enc)}', 'input': inp, 'observed': {'scrubbed': repr(q.runids), 'denotes': sorted(got)}, 'expected': sorted(want)})
    if tuple(q[1:]) != tuple(p[1:]):
        found.append({'clause': 'C17.scrub', 'signature': 'other-constraints-changed', 'input': inp, 'observed': repr(q), 'expected': repr(p)})


# --------------------------------------------------------------------------
# query generation
# --------------------------------------------------------------------------

OPTS = [None, 0, 1, 2]  # None | [n1] | [n2] | [n1, n2]


def _opt(level, o):
    n = NAMES[level]
    return None if o is None else [[n[0]], [n[1]], [n[0], n[1]], [UNKNOWN], [n[1], UNKNOWN]][o]


def query_of(runids, opts):
    q = {'runids': runids}
    for lv, o in zip(LEVELS, opts):
        q[lv] = _opt(lv, o)
    return q


SMALL_EXPRS = [None, {'s': '2:5'}, {'s': '1,9'}, {'l': [['r', 3, None], 1]}, {'s': '7'}, {'s': ':3,6'}]
NAME_COMBOS_SMALL = [
    (None, None, None, None, None),
    (0, None, None, None, None),
    (1, None, None, None, None),
    (None, 0, None, None, None),
    (None, None, 1, None, None),
    (None, None, None, 0, None),
    (None, None, None, None, 1),
    (0, 0, 0, 0, None),
    (2, None, 2, None, 2),
    (None, 1, None, 1, None),
    (3, None, None, None, None),
    (None, None, 4, None, None),
]


def run_store(spec, plan, seed, deadline=None):
    '''plan: dict with the sizes of the parts to run on this store'''
    sc.install()
    sc.fast_digest(True)
    rng = random.Random(seed)
    store = build_store(spec)
    try:
        ck = Checker(spec, deadline)
        ck.sequence = (dict(plan), seed)
        all_opts = list(itertools.product(OPTS, repeat=5))
        exprs = find_expressions()
        # (a) every name-constraint combination x a few run-id expressions
        for ei, e in enumerate(SMALL_EXPRS[plan.get('small_from', 0) : plan['small_exprs']]):
            few = plan['few_pages'] or ei >= plan.get('all_pages_exprs', 99)
            for opts in all_opts:
                ck.check_find(query_of(e, opts), [(1, 2)] if few else 'all', concat=not few)
        # (b) every run-id expression x a few name-constraint combinations, all pages
        for e in exprs[:: plan['expr_stride']]:
            for opts in NAME_COMBOS_SMALL[: plan['combos']]:
                ck.check_find(query_of(e, opts), 'all')
        # (c) random mixtures incl. unknown names
        for _ in range(plan['random']):
            opts = [rng.choice([None, None, 0, 1, 2, 3, 4]) for _ in LEVELS]
            ck.check_find(query_of(rng.choice(exprs + [None]), opts), 'all')
        # (d) facets: each name level x combinations of the other constraints
        for level in LEVELS[:4]:
            li = LEVELS.index(level)
            for e in SMALL_EXPRS[: plan['small_exprs']] + exprs[:: plan['facet_stride']]:
                for opts in all_opts[:: plan['facet_opt_stride']]:
                    if opts[li] is None:
                        ck.check_facet(query_of(e, opts), level)
        return ck.found, ck.execs, len(ck.sigs), ck.skipped
    finally:
        store.destroy()


def _run_store_args(args):
    return run_store(*args)


GROWTH_PAGES = [(0, None), (1, 2)]


def run_growth(spec, first, stride, deadline=None):
    '''the same queries before and after the store grew by entries that put further ids behind names already asked for
    (the same algorithm name in another task, a state vector under another algorithm ...): the second answers must be
    those of the grown store'''
    sc.install()
    sc.fast_digest(True)
    store = build_store(spec[:first])
    try:
        ck = Checker(spec, deadline)
        ck.growth = {'first': first, 'stride': stride}
        queries = [query_of(None, opts) for opts in list(itertools.product(OPTS, repeat=5))[::stride]]
        for q in queries:
            ck.check_find(q, GROWTH_PAGES, concat=False)
        add_entries(spec[first:], first)
        ck.entries = prime_entries()
        for q in queries:
            ck.check_find(q, GROWTH_PAGES, concat=False)
        for level in LEVELS[:4]:
            ck.check_facet(query_of(None, (None,) * 5), level)
        return ck.found, ck.execs, len(ck.sigs), ck.skipped
    finally:
        store.destroy()


def _run_growth_args(args):
    return run_growth(*args)


def run_scrub(seed, ntriples, deadline=None):
    sc.install()
    rng = random.Random(seed)
    execs, found, n, skipped = [0], [], 0, 0
    for enc in scrub_expressions(rng, ntriples):
        if sc.expired(deadline):
            skipped += 1
            continue
        n += 1
        check_scrub(enc, execs, found)
    return found, execs[0], n, skipped


def _run_scrub_args(args):
    return run_scrub(*args)


def run(tier: str, seed: int) -> dict:
    t0 = time.time()
    rng = random.Random(seed)
    if tier == 'quick':
        stores = [STORE0, random_store(rng)]
        plans = [
            {'small_exprs': 2, 'few_pages': True, 'expr_stride': 2, 'combos': 2, 'random': 30, 'facet_stride': 40, 'facet_opt_stride': 7},
            {'small_from': 2, 'small_exprs': 3, 'few_pages': True, 'expr_stride': 3, 'combos': 2, 'random': 30, 'facet_stride': 60, 'facet_opt_stride': 11},
        ]
        ntriples, procs = 1500, 1
    else:
        stores = [STORE0] + [random_store(rng) for _ in range(11)]
        plans = [{'small_exprs': 6, 'all_pages_exprs': 2, 'few_pages': False, 'expr_stride': 1, 'combos': 6, 'random': 300, 'facet_stride': 10, 'facet_opt_stride': 1}] * len(stores)
        ntriples, procs = 40000, min(16, os.cpu_count() or 1)
    deadline = t0 + sc.BUDGET_S[tier]
    jobs = [(spec, plan, seed * 1000 + i, deadline) for i, (spec, plan) in enumerate(zip(stores, plans))]
    if procs > 1:
        import multiprocessing

        with multiprocessing.get_context('fork').Pool(procs) as pool:
            scrub_async = pool.map_async(_run_scrub_args, [(seed * 77 + j, ntriples // 4, deadline) for j in range(4)])
            results = pool.map(_run_store_args, jobs, chunksize=1)
            scrubs = scrub_async.get()
    else:
        results = [run_store(*j) for j in jobs]
        scrubs = [run_scrub(seed, ntriples, deadline)]
    gjobs = [(spec, 6, 13 if tier == 'quick' else 3, deadline) for spec in stores]
    results = list(results) + [run_growth(*g) for g in gjobs]
    viol = sc.Violations()
    execs = distinct = skipped = 0
    for found, n, d, sk in list(results) + list(scrubs):
        execs += n
        distinct += d
        skipped += sk
        for f in found:
            viol.add(f['clause'], f['signature'], f['input'], f['observed'], f['expected'])
    samples = [
        {'kind': 'find', 'store': STORE0, 'query': query_of({'s': '1:3,2:5'}, (0, None, 2, None, None)), 'index': 1, 'limit': 2},
        {'kind': 'find', 'store': STORE0, 'query': query_of({'l': [['r', 3, None], 1]}, (None, 1, None, None, 0)), 'index': 0, 'limit': None},
        {'kind': 'facet', 'store': STORE0, 'query': dict(query_of({'s': ':3,6'}, (0, None, None, None, None)), algs=[])},
        {'kind': 'scrub', 'runids': {'s': '2:,1:3, ,6'}},
    ]
    return {
        'cases': execs,
        'distinct': distinct,
        'rule': (
            f'{len(stores)} stores of 12 entries (first one fixed, others seeded); per store: (a) all 1024 name-constraint combinations x '
            'a few run-id expressions, (b) every run-id expression of the grammar x a few name combinations with every (index, limit) page '
            'and the page concatenations, (c) seeded random mixtures incl. unknown names, (d) facets of the 4 name levels targets..svs; '
            'plus, per store, every 13th (thorough: 3rd) name-constraint combination asked on the first 6 entries and again after the other 6 were stored; plus _scrub alone on every single atom, all pairs of atoms and seeded longer expressions / object lists; "cases" = calls of '
            'find/facet/_scrub on the real code, "distinct" = distinct (store, query) pairs + distinct _scrub expressions; '
            'the quick tier thins (a),(b),(d) by strides'
        ),
        'exhaustive': False,
        'samples': samples,
        'violations': viol.as_list(),
        'clauses': CLAUSES,
        'skipped_for_time': skipped,
        'wall_s': round(time.time() - t0, 2),
    }


def replay(case: dict) -> dict:
    case = case.get('input', case)      # the violation as reported (./check --replay) or its input
    sc.install()
    sc.fast_digest(True)
    found = []
    if case.get('kind') == 'scrub':
        check_scrub(case['runids'], [0], found)
    elif case.get('growth'):
        same = lambda f: all(f['input'].get(k) == case.get(k) for k in ('kind', 'query', 'index', 'limit'))  # noqa: E731
        seq, _e, _s, _k = run_growth(case['store'], case['growth']['first'], case['growth']['stride'])
        found = [f for f in seq if same(f)]
    else:
        store = build_store(case['store'])
        try:
            ck = Checker(case['store'])
            if case['kind'] == 'facet':
                level = [lv for lv in LEVELS if case['query'][lv] == []][0]
                ck.check_facet(dict(case['query'], **{level: None}), level)
            else:
                pages = [(case['index'], case.get('limit'))] if 'index' in case else 'all'
                ck.check_find(case['query'], pages)
            found = ck.found
        finally:
            store.destroy()
        if not found and case.get('sequence'):
            # the answer may depend on the queries asked before on the same store (a cache in the code under test):
            # re-run the whole query sequence of that store and look for the same query
            same = lambda f: all(f['input'].get(k) == case.get(k) for k in ('kind', 'query', 'index', 'limit'))  # noqa: E731
            seq, _e, _s, _k = run_store(case['store'], case['sequence']['plan'], case['sequence']['seed'])
            found = [f for f in seq if same(f)]
    return {
        'reproduced': bool(found),
        'observed': sc.jsonable([f['observed'] for f in found[:3]]),
        'expected': sc.jsonable([f['expected'] for f in found[:3]]),
        'clauses': sorted({f['clause'] for f in found}),
    }
