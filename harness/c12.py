"""C12 - A submitted update takes effect exactly when its priority allows (bounded stand-in).

Every history starts from a booted pipeline (real FSM, deferred branches, boot completed: running/active).
Events of a history (JSON strings):
  'S:<PRIO>'   a whole submission through the deprecated front end dawgie.fe.submit (Defer.__call__ -> Process
               step_0..step_3 run in one reactor turn; git/compliance replaced by fakes that succeed).  In the
               enumeration it is executed in every configuration but its successor is not expanded (on the FSM
               it equals 'B:<PRIO>','F:ok'); when it leads somewhere new it is followed by a fixed probe
               ('F:ok' for the other front end's pending submission, then quiescence).  Random walks continue.
  'B:<PRIO>'   a submission through dawgie.fe.api.submit begins: step_1, step_2 (-> gitting); the compliance
               child process is now running and the reactor is free
  'F:ok' / 'F:fail'  that child ends (VerifyHandler.processEnded): step_3 (running, set_submit_info,
               submit_crossroads) resp. Process.failure (running, nothing recorded)
  'W:<n>'      progress of queue and crew, set directly: 0 nothing queued; 1 work queued, nothing executing;
               2 something executing (schedule.view_doing() non-empty) but no busy worker; 3 a worker is busy
               (farm._busy non-empty).  Levels 2/3 are only raised while the real farm.something_to_do() says
               dispatch would run; level 1 (a run request) and lowering are possible at any time.
  'P:<k>'      the poller k (crew/doing/todo) looks (runs is_k_done in the fake pool); it exits or keeps polling
  'D:<k>'      the reactor runs the callbacks of the exited poller k (done())
  'C'          the oldest outstanding life-cycle background step (reload/archive/load/introspection) completes
  'A'          a dispatch tick with new data and nothing in flight: farm.ARCHIVE=True and, under the same guard
               as farm.dispatch, fsm.archiving_trigger()
  'Z:keep' / 'Z:lower'  (check only) keep the world as it is / lower it to the busiest level at which the
               condition of the strongest pending priority holds, then run pollers, deliveries and background
               steps to quiescence

Oracle (from the property statement; the lattice and the conditions are written here, not read from the code):
  pending = strongest priority (NOW > CREW > DOING > TODO) among the submissions accepted (see below) since the
            last accepted update_trigger (= the reload was triggered: running -> updating)
  C12.condition   an accepted update_trigger happens only while cond(pending) holds at that instant
                  (NOW: always; CREW: farm._busy empty; DOING: view_doing() empty; TODO: schedule.que empty)
  C12.once        no accepted update_trigger while nothing is pending (second reload for one cycle)
  C12.now         a NOW submission is followed by the reload inside the same event (immediately)
  C12.eventually  at quiescence with the world held where cond(pending) holds, the reload has been triggered
                  ("exactly once" includes at least once)
  C12.refused     a submission attempted while the pipeline is not at rest in running is refused (no success
                  reply, no compliance run started)
A submission counts as submitted-and-accepted when it was made while the pipeline was at rest in running and its
git/compliance steps succeeded (always, for 'S'; 'F:ok' for 'B') - whatever the code then replied.
Out of scope: thread-level interleavings (everything runs on the harness thread), cmd_reset, the second step_3 the
deprecated front end runs when its compliance child ends (not driven).
"""

import collections
import heapq
import json
import os
import random
import threading
import time

from . import _fsm_common as K

import dawgie.context  # noqa: E402
import dawgie.fe.api.submit  # noqa: E402
import dawgie.fe.submit  # noqa: E402
import dawgie.pl.dag  # noqa: E402
import dawgie.tools.submit  # noqa: E402
import twisted.internet.error  # noqa: E402
import twisted.internet.reactor  # noqa: E402
import twisted.python.failure  # noqa: E402

PROPERTY = 'C12'
BOUND = (
    'from a booted pipeline: every history with <= 4 submission attempts (thorough: to the fixpoint of the '
    'configuration graph, reached after 5) of priorities {NOW,CREW,DOING,TODO} through fe.api.submit (begin / '
    'compliance child ends ok / fails), any number of reload cycles within that, interleaved in every order with 4 '
    'world levels, poller looks, poller deliveries, life-cycle completions and archive ticks; histories merged on '
    'the observable configuration; in every configuration also one whole submission through the deprecated '
    'fe.submit (quick: one priority, thorough: all four) and a run to quiescence; plus seeded un-merged random '
    'walks (quick 100 x <=25 events, thorough 2000 x <=40)'
)
CLAUSES = ['C12.condition', 'C12.once', 'C12.now', 'C12.eventually', 'C12.refused']

PRIOS = ('NOW', 'CREW', 'DOING', 'TODO')
RANK = {'TODO': 0, 'DOING': 1, 'CREW': 2, 'NOW': 3}
VALUE = {'NOW': 'now', 'CREW': 'crew_idle', 'DOING': 'doing_empty', 'TODO': 'todo_empty'}  # the wire strings
KINDS = {'crew': 'is_crew_done', 'doing': 'is_doing_done', 'todo': 'is_todo_done'}


def stronger(a, b):
    if a is None:
        return b
    if b is None:
        return a
    return a if RANK[a] >= RANK[b] else b


def cond(prio, world):
    busy, doing, queued = world
    return {'NOW': True, 'CREW': not busy, 'DOING': not doing, 'TODO': not queued}[prio]


def busiest_level(prio):
    return {'NOW': 3, 'CREW': 2, 'DOING': 1, 'TODO': 0}[prio]


# --------------------------------------------------------------------------------------------------------------
# fakes specific to the submission path
# --------------------------------------------------------------------------------------------------------------
class FakeRequest:
    def __init__(self):
        self.written = []
        self.finished = False

    def write(self, data):
        if self.finished:
            raise RuntimeError('Request.write called on a request after Request.finish was called.')
        self.written.append(data)

    def finish(self):
        if self.finished:
            raise RuntimeError('Request.finish called on a request after its connection was lost')
        self.finished = True

    def replies(self):
        return [json.loads(w.decode() if isinstance(w, bytes) else w) for w in self.written]


def _reply_ok(reply):
    return reply.get('alert_status') == 'success' or reply.get('status') == 'success'


_INSTALLED = False


def install():
    global _INSTALLED  # pylint: disable=global-statement
    K.install()
    if _INSTALLED:
        return
    _INSTALLED = True

    def call_later(_delay, fn, *a, **k):
        K.CURRENT.later.append((fn, a, k))

    twisted.internet.reactor.callLater = call_later

    def automatic(**kwds):
        K.CURRENT.log.append('tools.submit.automatic')
        K.CURRENT.handler = kwds['spawn'].__self__  # the VerifyHandler that owns the compliance child
        return dawgie.tools.submit.State.SUCCESS

    dawgie.tools.submit.automatic = automatic
    dawgie.tools.submit.already_applied = lambda changeset, repo: False

    def mail_out(*_a, **_k):
        K.CURRENT.log.append('tools.submit.mail_out')

    dawgie.tools.submit.mail_out = mail_out


def scratch_repo():
    path = os.path.join(K.scratch_dir(), 'ae')
    os.makedirs(os.path.join(path, '.git'), exist_ok=True)
    return path


def scratch_remove():
    K.scratch_remove()


def make_node(running):
    n = dawgie.pl.dag.Node('task.alg')
    State = K.schedule.State
    n.set('status', State.running if running else State.waiting)
    n.set('doing', {'T'} if running else set())
    n.set('todo', set() if running else {'T'})
    n.set('do', set())
    return n


class Rig12(K.Rig):
    _booted = {}

    def __init__(self, archive_mode='sync', reuse=False):
        install()
        self.later = []
        self.handler = None
        super().__init__(doctest=False, archive_mode=archive_mode, reopen_result=False, reuse=reuse)
        dawgie.context.ae_base_path = scratch_repo()
        self.front = {'S': dawgie.fe.submit.Defer(), 'B': dawgie.fe.api.submit.Defer()}
        self.in_progress = None  # {'prio', 'request', 'handler'} while the api submission's child runs
        self.nsub = 0
        # oracle state
        self.pending = None
        self.reloads = 0
        self.calls_seen = 0
        # boot (fixed prefix of every history); with reuse the booted instance dictionary is put back instead
        booted = Rig12._booted.get(archive_mode) if reuse else None
        if booted is None:
            self.fsm.starting_trigger()
            while self.pool.steps:
                self.pool.complete(0)
            if reuse:
                skip = set(self.triggers) | {'_probe_rig'}
                entries = {k: v for k, v in self.fsm.__dict__.items() if k not in skip}
                flags = {k: v.is_set() for k, v in entries.items() if isinstance(v, threading.Event)}
                Rig12._booted[archive_mode] = (
                    entries, flags, list(self.log), list(self.trigger_calls), list(self.moves), list(self.swallowed), self.pool.count
                )
        else:
            entries, flags, log, calls, moves, swallowed, count = booted
            self.fsm.__dict__.update(entries)
            for k, was_set in flags.items():
                if was_set:
                    entries[k].set()
                else:
                    entries[k].clear()
            self.log[:] = log
            self.trigger_calls[:] = calls
            self.moves[:] = moves
            self.swallowed[:] = swallowed
            self.pool.count = count
        assert self.fsm.state == 'running' and self.fsm.transitioning == K.Status.active, self.snapshot()
        self.calls_seen = len(self.trigger_calls)

    # ---- reactor ------------------------------------------------------------------------------------------
    def tick(self):
        while self.later:
            fn, a, k = self.later.pop(0)
            fn(*a, **k)

    # ---- world --------------------------------------------------------------------------------------------
    def level(self):
        busy, doing, queued = K.world_now()
        return 3 if busy else 2 if doing else 1 if queued else 0

    def set_level(self, n):
        K.schedule.que.clear()
        K.farm._busy.clear()  # pylint: disable=protected-access
        if n >= 1:
            K.schedule.que.append(make_node(running=n >= 2))
        if n >= 3:
            K.farm._busy.append('task.alg[T]')  # pylint: disable=protected-access

    def oracle_active(self):
        return (
            self.fsm.state == 'running'
            and self.fsm.transitioning == K.Status.active
            and not self.pool.lifecycle()
        )

    def key(self):
        snap = self.snapshot()
        # pollers are addressed by kind, so their creation order is irrelevant; life-cycle steps keep theirs
        steps = snap[-1]
        snap = snap[:-1] + (
            tuple(sorted(s for s in steps if s[0] in K.POLLERS)) + tuple(s for s in steps if s[0] not in K.POLLERS),
        )
        return (
            snap,
            K.world_now(),
            self.in_progress['prio'] if self.in_progress else None,
            self.pending,
        )

    # ---- events -------------------------------------------------------------------------------------------
    def available(self, max_subs):
        ev = []
        if self.nsub < max_subs and self.in_progress is None:
            ev += ['B:' + p for p in PRIOS]
        if self.in_progress is not None:
            ev += ['F:ok', 'F:fail']
        lvl = self.level()
        can_dispatch = None
        for n in range(4):
            if n == lvl:
                continue
            if n > lvl and n >= 2:
                if can_dispatch is None:
                    can_dispatch = bool(K.farm.something_to_do())
                if not can_dispatch:
                    continue
            ev.append('W:%d' % n)
        for k, fn in KINDS.items():
            for s in self.pool.steps:
                if s.kind == fn:
                    ev.append(('P:' if s.phase == 'pending' else 'D:') + k)
        if self.pool.lifecycle():
            ev.append('C')
        if lvl == 0 and self.archive_guard():
            ev.append('A')
        return ev

    def archive_guard(self):
        f = K.farm
        return bool(
            f.something_to_do()
            and not K.schedule.promote.more()
            and not sum([len(f._jobs), len(f._busy), len(f._cluster), len(f._cloud)])  # pylint: disable=protected-access
        )

    def check_events(self, max_subs):
        '''events whose successors are not expanded: a whole submission through the deprecated front end (on the
        FSM it is B:<p> followed at once by F:ok; while not active it must be refused) and the Z variants'''
        out = []
        if self.nsub < max_subs:
            out += ['S:' + p for p in PRIOS]
        if self.pending is None or self.in_progress is not None:
            return out
        world = K.world_now()
        if cond(self.pending, world):
            out.append('Z:keep')
        if self.level() != busiest_level(self.pending):
            out.append('Z:lower')
        return out

    def submit(self, front, prio):
        self.nsub += 1
        request = FakeRequest()
        container = self.front[front]
        container.request = request
        self.handler = None
        ret = container(['changeset%d' % self.nsub], [VALUE[prio]])
        self.tick()
        replies = request.replies()
        if isinstance(ret, (bytes, str)):
            replies.append(json.loads(ret.decode() if isinstance(ret, bytes) else ret))
        if front == 'B' and self.handler is not None and not replies:
            self.in_progress = {'prio': prio, 'request': request, 'handler': self.handler}
        return request, replies

    def finish(self, ok):
        ip = self.in_progress
        self.in_progress = None
        if ok:
            reason = twisted.python.failure.Failure(twisted.internet.error.ProcessDone(0))
        else:
            reason = twisted.python.failure.Failure(twisted.internet.error.ProcessTerminated(1))
        ip['handler'].processEnded(reason)
        self.tick()
        return ip['request'].replies()

    def quiesce(self):
        for _ in range(60):
            progress = False
            for s in list(self.pool.steps):
                if s not in self.pool.steps:
                    continue
                i = self.pool.steps.index(s)
                if s.kind in K.POLLERS:
                    if s.phase == 'pending':
                        progress = self.pool.poll(i) or progress
                    else:
                        self.pool.deliver(i)
                        progress = True
                else:
                    self.pool.complete(i)
                    progress = True
            self.tick()
            if not progress:
                return True
        return False

    def apply(self, event):
        '''execute one event; returns the list of oracle findings (clause, signature, observed, expected)'''
        kind, _, arg = event.partition(':')
        before = self.snapshot()
        effects_before = self.effects()
        was_active = self.oracle_active()
        accepted_prio = None
        attempted = None
        replies = []
        out = []
        if kind in ('S', 'B'):
            attempted = arg
            _, replies = self.submit(kind, arg)
            if kind == 'S' and was_active:
                # submitted while the pipeline was at rest in running; the git/compliance fakes succeed
                accepted_prio = arg
        elif kind == 'F':
            prio = self.in_progress['prio']
            replies = self.finish(arg == 'ok')
            if arg == 'ok':
                # begun while active (else 'B' would have been refused) and its compliance child succeeded
                accepted_prio = prio
        elif kind == 'W':
            self.set_level(int(arg))
        elif kind == 'P':
            self.pool.poll(self.pool.find(KINDS[arg]))
        elif kind == 'D':
            self.pool.deliver(self.pool.find(KINDS[arg]))
            self.tick()
        elif kind == 'C':
            self.pool.complete(self.pool.steps.index(self.pool.lifecycle()[0]))
            self.tick()
        elif kind == 'A':
            K.farm.ARCHIVE = True
            if self.archive_guard():
                try:
                    self.fsm.archiving_trigger()
                except K.MachineError:
                    pass
        elif kind == 'Z':
            if arg == 'lower':
                self.set_level(busiest_level(self.pending))
            self.quiesce()
        else:
            raise ValueError(event)

        calls = self.trigger_calls[self.calls_seen :]
        self.calls_seen = len(self.trigger_calls)

        # -- refused unless active ----------------------------------------------------------------------------
        if attempted is not None and not was_active:
            ok_reply = any(_reply_ok(r) for r in replies)
            began = self.in_progress is not None and kind == 'B'
            if ok_reply or began:
                out.append(
                    (
                        'C12.refused',
                        f'refused:{before[0]}/{before[1]}:front={kind}:accepted',
                        {'replies': replies, 'before': K.snap_dict(before), 'after': K.snap_dict(self.snapshot()),
                         'trigger_calls': [list(c[:3]) for c in calls]},
                        'the submission is refused: the pipeline was not at rest in running',
                    )
                )
        # -- acceptance -----------------------------------------------------------------------------------------
        if accepted_prio is not None:
            self.pending = stronger(self.pending, accepted_prio)
        now_due = accepted_prio is not None and self.pending == 'NOW'
        # -- every accepted update_trigger of this event ---------------------------------------------------------
        for name, state_before, outcome, world in calls:
            if name != 'update_trigger' or outcome != 'ok':
                continue
            source = {'D': 'done-does-not-recheck', 'Z': 'done-does-not-recheck', 'S': 'crossroads', 'F': 'crossroads'}.get(kind, 'other')
            if self.pending is None:
                out.append(
                    (
                        'C12.once',
                        f'once:reload-with-nothing-pending:{source}',
                        {'update_trigger_from': state_before, 'reloads_so_far': self.reloads, 'world(busy,doing,queued)': list(world)},
                        'no reload unless a submission is pending (exactly one reload per cycle)',
                    )
                )
            elif not cond(self.pending, world):
                out.append(
                    (
                        'C12.condition',
                        f'condition:{self.pending}:{source}',
                        {'pending': self.pending, 'world(busy,doing,queued)': list(world), 'during': event},
                        f'reload only while the condition of {self.pending} holds',
                    )
                )
            self.pending = None
            self.reloads += 1
            now_due = False
        if now_due:
            out.append(
                (
                    'C12.now',
                    'now:not-immediate:' + self.lost_reason(calls),
                    {'pending': 'NOW', 'trigger_calls': [list(c[:3]) for c in calls], 'state': self.fsm.state},
                    'the reload is triggered immediately for NOW',
                )
            )
        # -- quiescence ---------------------------------------------------------------------------------------
        if kind == 'Z' and self.pending is not None and cond(self.pending, K.world_now()):
            out.append(
                (
                    'C12.eventually',
                    f'eventually:{self.pending}:' + self.lost_reason(self.trigger_calls),
                    {
                        'pending': self.pending,
                        'world(busy,doing,queued)': list(K.world_now()),
                        'fsm': K.snap_dict(self.snapshot()),
                        'swallowed': [list(s) for s in self.swallowed[-3:]],
                    },
                    'the reload is triggered once the condition of the strongest pending priority holds',
                )
            )
        self.last = {
            'before': before,
            'effects': (effects_before, self.effects()),
            'replies': replies,
            'calls': calls,
            'refusal_checked': attempted is not None and not was_active,
        }
        return out

    def lost_reason(self, calls):
        '''why did the reload not happen (diagnosis only, part of the signature)'''
        calls = list(calls)
        for i in range(len(calls) - 1, -1, -1):  # only this cycle: after the last accepted reload
            if calls[i][0] == 'update_trigger' and calls[i][2] == 'ok':
                calls = calls[i + 1 :]
                break
        rejected = [c for c in calls if c[2] not in ('ok', 'false')]
        if rejected:
            return rejected[-1][0] + '-rejected-in-' + rejected[-1][1]
        f = self.fsm
        waiting = {'crew': not f.wait_on_crew.is_set(), 'doing': not f.wait_on_doing.is_set(), 'todo': not f.wait_on_todo.is_set()}
        slots = {'crew': f.crew_thread, 'doing': f.doing_thread, 'todo': f.todo_thread}
        live = {k for k, fn in KINDS.items() if self.pool.find(fn) is not None}
        for k in ('crew', 'doing', 'todo'):
            if waiting[k] and k not in live:
                return f'waiting-on-{k}-without-poller' + ('-slot-stale' if slots[k] is not None else '')
        if not any(waiting.values()):
            return 'no-wait-active:priority=' + (f.priority.name if f.priority else 'None')
        return 'poller-keeps-polling:' + '+'.join(k for k in waiting if waiting[k])


def run_history(history, archive_mode, report_all=False, reuse=False):
    rig = Rig12(archive_mode, reuse)
    found = []
    for i, event in enumerate(history):
        kind, _, arg = event.partition(':')
        executable = True
        if kind == 'F':
            executable = rig.in_progress is not None
        elif kind in ('P', 'D'):
            idx = rig.pool.find(KINDS[arg])
            executable = idx is not None and rig.pool.steps[idx].phase == ('pending' if kind == 'P' else 'exited')
        elif kind == 'C':
            executable = bool(rig.pool.lifecycle())
        elif kind == 'Z':
            executable = rig.pending is not None
        elif kind == 'B':
            executable = rig.in_progress is None
        if not executable:
            return rig, found, False
        vio = rig.apply(event)
        if report_all or i == len(history) - 1:
            found.extend((v, i) for v in vio)
    return rig, found, True


class Collector:
    def __init__(self):
        self.best = {}
        self.order = []

    def add(self, archive_mode, history, upto, v):
        clause, sig, observed, expected = v
        hist = list(history[: upto + 1])
        old = self.best.get((clause, sig))
        if old is None:
            self.order.append((clause, sig))
        if old is None or len(hist) < len(old['input']['history']):
            self.best[(clause, sig)] = {
                'clause': clause,
                'signature': sig,
                'input': {'archive': archive_mode, 'history': hist},
                'observed': observed,
                'expected': expected,
            }

    def result(self):
        return [self.best[k] for k in self.order]


def explore(archive_mode, max_subs, deadline, coll, stats, samples, all_front_ends=True):
    '''layered breadth-first closure; layer = number of submission attempts used.

    Every (configuration, event) pair is executed on the real code exactly once.  The prefix is replayed from
    boot unless the live rig is still in the configuration (the previous event left the configuration
    unchanged, or was a world change, which is undone by setting the previous level again).
    '''
    rig = Rig12(archive_mode)
    seen = {rig.key(): ()}
    layer = [(0, 0, ())]  # heap on (length, discovery number): shortest histories first inside a layer
    nxt = []
    depth = 0
    nconf = 0
    while True:
        while layer:
            history = heapq.heappop(layer)[2]
            nconf += 1
            rig, _, _ = run_history(history, archive_mode, reuse=True)
            here = rig.key()
            events = rig.available(max_subs)
            checks = rig.check_events(max_subs)
            if not all_front_ends:  # one priority per configuration (rotating) through the deprecated front end
                subs = [e for e in checks if e[0] == 'S']
                checks = [e for e in checks if e[0] != 'S'] + subs[nconf % 4 : nconf % 4 + 1]
            dirty = False
            for event in events + checks:
                if time.time() > deadline:
                    stats['timeout'] = True
                    stats['configs'] += len(seen)
                    stats['layers'] = max(stats.get('layers', 0), depth)
                    stats['complete_upto'] = depth - 1  # every history with that many submission attempts was run
                    stats['left_in_layer'] = len(layer) + 1
                    return False
                h2 = history + (event,)
                if dirty:
                    rig, _, _ = run_history(history, archive_mode, reuse=True)
                    stats['replays'] += 1
                    dirty = False
                level = rig.level()
                found = [(v, len(history)) for v in rig.apply(event)]
                stats['cases'] += 1
                stats['events'] += 1
                stats['refusals'] += int(rig.last['refusal_checked'])
                key = rig.key()
                if stats['cases'] % 101 == 0:  # self-check of the rig: replay on a newly constructed FSM agrees
                    rig3, found3, _ = run_history(h2, archive_mode, reuse=False)
                    assert (rig3.key(), [f[0][:2] for f in found3]) == (key, [f[0][:2] for f in found]), h2
                    stats['crosschecks'] += 1
                    rig, _, _ = run_history(h2, archive_mode, reuse=True)
                for v, idx in found:
                    coll.add(archive_mode, h2, idx, v)
                if event in checks:
                    stats['nontrivial'] += 1
                    if event[0] == 'S' and key != here and key not in seen:
                        # the deprecated front end led somewhere the other events do not: follow it with a fixed
                        # probe (let the other submission's child succeed, then quiesce) instead of expanding it
                        h3 = list(h2)
                        for probe in ('F:ok', 'Z:lower', 'Z:keep'):
                            if probe == 'F:ok' and rig.in_progress is None:
                                continue
                            if probe[0] == 'Z' and probe not in rig.check_events(0):
                                continue
                            h3.append(probe)
                            stats['cases'] += 1
                            for v in rig.apply(probe):
                                coll.add(archive_mode, h3, len(h3) - 1, v)
                            if probe[0] == 'Z':
                                break
                elif key not in seen:
                    seen[key] = h2
                    stats['nontrivial'] += 1
                    heapq.heappush(nxt if event[0] == 'B' else layer, (len(h2), len(seen), h2))
                    if len(h2) in (5, 8, 11, 14) and sum(e[0] == 'B' for e in h2) >= 2 and not any(len(x['history']) == len(h2) for x in samples):
                        samples.append({'archive': archive_mode, 'history': list(h2), 'ends_in': K.snap_dict(rig.snapshot())})
                if key == here:
                    continue
                if event[0] == 'W':
                    rig.set_level(level)
                    if rig.key() == here:
                        continue
                dirty = True
        if not nxt:
            break
        depth += 1
        layer, nxt = nxt, []
    stats['configs'] += len(seen)
    stats['layers'] = max(stats.get('layers', 0), depth)
    stats['complete_upto'] = max_subs
    stats['fixpoint'] = int(depth < max_subs)  # the last layer produced no new configuration before the bound
    return True


def random_walks(rng, count, max_len, max_subs, deadline, coll, stats):
    distinct = set()
    for _ in range(count):
        if time.time() > deadline:
            stats['timeout'] = True
            break
        mode = rng.choice(['sync', 'async'])
        rig = Rig12(mode)
        history = []
        for i in range(rng.randint(4, max_len)):
            events = rig.available(max_subs) + rig.check_events(max_subs)
            if rig.in_progress is not None:
                # the deprecated front end used while the other one is busy is probed (deterministically) by the
                # enumeration; walks that continue behind it only re-find that finding under changing signatures
                events = [e for e in events if e[0] != 'S']
            if not events:
                break
            event = rng.choice(events)
            history.append(event)
            for v in rig.apply(event):
                coll.add(mode, history, i, v)
        stats['cases'] += 1
        stats['events'] += len(history)
        distinct.add((mode, tuple(history)))
    return len(distinct)


def run(tier: str, seed: int) -> dict:
    t0 = time.time()
    thorough = tier == 'thorough'
    # quick: bound 4, one archive mode, one (rotating) priority per configuration through the deprecated front end;
    # ~12 s on an idle machine; layers <= 3 take ~4 s, on a busy machine layer 4 is cut at the deadline (then
    # 'exhaustive' is False and the rule says how far it got).
    # thorough: bound 8 - the closure stops earlier, at its fixpoint (no new configuration after 5 attempts).
    deadline = t0 + (240 if thorough else 12.5)
    max_subs = 8 if thorough else 4
    coll = Collector()
    stats = collections.Counter()
    samples = []
    notes = []
    try:
        closed = True
        for mode in (['sync', 'async'] if thorough else ['sync']):
            st = collections.Counter()
            ok = explore(mode, max_subs, deadline, coll, st, samples, all_front_ends=thorough)
            closed = closed and ok
            notes.append(
                f"db.archive {mode}: {st['configs']} configurations, {st['cases']} pairs, complete for <= "
                f"{st['complete_upto']} submission attempts"
                + (', fixpoint reached (covers every longer history)' if st.get('fixpoint') else '')
                + (f", stopped at the deadline with {st['left_in_layer']} configurations of layer {st['layers']} left" if st.get('timeout') else '')
            )
            stats.update(
                {k: v for k, v in st.items() if k in ('cases', 'nontrivial', 'replays', 'crosschecks', 'configs', 'refusals')}
            )
        rng = random.Random(seed)
        walks = random_walks(
            rng, 2000 if thorough else 100, 40 if thorough else 25, 6, t0 + (280 if thorough else 15), coll, stats
        )
    finally:
        scratch_remove()
    return {
        'cases': int(stats['cases']),
        'distinct': int(stats['nontrivial'] + walks),
        'rule': (
            'breadth-first over (configuration, event) pairs from the booted pipeline: each pair executes the event '
            'on the real FSM / front ends in that configuration (reached by replay from boot); configurations merged '
            'on (FSM snapshot, world, submission in progress, pending priority); layers by number of submission '
            'attempts; distinct = pairs that reached a new configuration or ran a quiescence / deprecated-front-end '
            'check, plus distinct random walks (un-merged, newly constructed FSM each). ' + '; '.join(notes)
            + f"; {stats['refusals']} of the pairs are submissions attempted while not active (all must be refused)"
            + f"; {walks} random walks; {stats['crosschecks']} replays cross-checked on a newly constructed FSM"
        ),
        'exhaustive': bool(closed),
        'samples': samples[:4],
        'violations': coll.result(),
        'clauses': list(CLAUSES),
        'seconds': round(time.time() - t0, 2),
    }


def replay(case: dict) -> dict:
    inp = case.get('input', case)
    try:
        rig, found, executable = run_history(list(inp['history']), inp.get('archive', 'sync'))
    finally:
        scratch_remove()
    if not executable:
        return {'reproduced': False, 'observed': 'history not executable on this tree', 'expected': case.get('expected')}
    want = (case.get('clause'), case.get('signature'))
    for (clause, sig, observed, expected), _ in found:
        if want[0] is None or (clause, sig) == want:
            return {'reproduced': True, 'observed': observed, 'expected': expected}
    return {
        'reproduced': False,
        'observed': {'ends_in': K.snap_dict(rig.snapshot()), 'pending': rig.pending, 'other': [f[0][1] for f in found]},
        'expected': case.get('expected'),
    }
