'''C07 - content-addressed store: novelty signal, single copy, no dangling reference

Bounded run-time harness on the real shelve back end with the real
``md5sum``/``sha1sum`` executables:

* operation histories (updates with repeating contents across targets,
  algorithms and runs, removals, ``db/tools/purge.py``, close/reopen) - after
  every operation the blob directory and the prime table are audited by
  independent code and the (name, isnew) reports of ``Task.new_values()`` are
  compared with what the property statement prescribes;
* crash injection: one update is crashed before its k-th file-system / table
  call, for every k, both as an exception travelling up the stack and as a hard
  process death (fork + ``os._exit``); the store is then reopened, audited,
  and the same update is retried.
'''

import builtins
import logging
import os
import random
import runpy
import shelve
import sys
import time

from . import _store_common as sc

import dawgie
import dawgie.db
import dawgie.db.util

PROPERTY = 'C07'
BOUND = (
    'real shelve store + real md5sum/sha1sum; histories of <= 5 operations over {update of 2 values with contents from a pool of 4 '
    '(repeating; one > 64 KiB), remove, purge tool, close/reopen} on 2 targets x 2 algorithms x runs {1,2}, plus 6 fixed histories over three pairs of '
    'large values (5 KB, 70 KB, 1 MiB pickles) that differ in their last byte only (names are the digest of ALL bytes) and 12 fixed histories that remove one of two '
    'catalogue entries sharing one stored content; crash injection before '
    'every intercepted call k (tempfile.mkstemp, os.close, open, pickle.dump (also torn), os.chmod, subprocess.check_output x2, '
    'os.path.exists, os.unlink, shutil.move inside dawgie.db.util; Shelf.__setitem__/__delitem__ = every table write) of one '
    'update, all k, two crash modes (exception / fork+os._exit), for 6 fixed + 28 seeded random scenarios (thorough tier; the quick '
    'tier: the overwrite scenario at all k in both modes, the repeated-content scenario (same content stored again for another '
    'target while the first target still refers to it) at all k as exception, two more at every 2nd k plus every call of '
    'dawgie.db.util.move as exception), followed by reopen, audit, retry of the update, audit (and purge + audit on a subset)'
)

CLAUSES = [
    'C07.name',  # every stored file hashes to its own name
    'C07.ref',  # every prime value names an existing file
    'C07.new',  # isnew == content was not in the store before
    'C07.reports',  # one (name, isnew) report per value written
    'C07.once',  # identical content is kept once (one file, one name)
    'C07.purge',  # the purge tool removes only unreferenced files
    'C07.crash.reopen',  # after a crash the store opens and its catalogue resolves
    'C07.crash.ref',  # after a crash: no dangling reference
    'C07.crash.name',  # after a crash: every stored file hashes to its name
    'C07.crash.retry',  # after a crash the retried update completes
]

TARGETS = ['t1', 't2']
AUTHORS = [('tk', 'al'), ('tk', 'bl')]
SV = 'sv'
VN = ['v', 'w']
V0 = (1, 1, 0)
PURGE = os.path.join(sc.REPO, 'Python', 'dawgie', 'db', 'tools', 'purge.py')


def content(ci):
    '''pool of contents; built afresh each time so equal ids pickle equally'''
    return [
        {'c': 0, 'x': [1, 2, 3]},
        ('c', 1, 'text'),
        {'c': 2, 'big': bytes(range(256)) * 300},
        [3, {'c': 3}, None],
        # pairs of large values that differ in their last bytes only (beyond 4 KiB, 64 KiB and 1 MiB of the pickle)
        {'c': 4, 'big': bytes(5000) + b'A'},
        {'c': 4, 'big': bytes(5000) + b'B'},
        {'c': 4, 'big': bytes(70000) + b'A'},
        {'c': 4, 'big': bytes(70000) + b'B'},
        {'c': 4, 'big': bytes((1 << 20) + 5000) + b'A'},
        {'c': 4, 'big': bytes((1 << 20) + 5000) + b'B'},
    ][ci]


# --------------------------------------------------------------------------
# crash injection
# --------------------------------------------------------------------------


class Crash(BaseException):
    pass


class Injector:
    def __init__(self):
        self.active = False
        self.k = None
        self.mode = 'raise'
        self.torn = False
        self.count = 0
        self.log = []

    def arm(self, k, mode, torn=False):
        self.active, self.k, self.mode, self.torn = True, k, mode, torn
        self.count, self.log = 0, []

    def disarm(self):
        self.active = False

    def hit(self, label):
        '''returns True when the call is to be torn (partially executed)'''
        if not self.active:
            return False
        self.count += 1
        self.log.append(label)
        if self.count == self.k:
            if self.torn:
                return True
            self.die(label)
        return False

    def die(self, label):
        self.active = False
        if self.mode == 'exit':
            os._exit(77)
        raise Crash(label)


INJ = Injector()


def _wrap(fn, label):
    def wrapped(*args, **kwds):
        INJ.hit(label)
        return fn(*args, **kwds)

    return wrapped


def _torn_dump(obj, f, protocol=None):
    import pickle

    if INJ.hit('pickle.dump'):
        data = pickle.dumps(obj, protocol)
        f.write(data[: max(1, len(data) // 2)])
        f.flush()
        INJ.die('pickle.dump(torn)')
    return pickle.dump(obj, f, protocol)


class _Proxy:
    def __init__(self, real, wrapped):
        self._real = real
        self._wrapped = wrapped

    def __getattr__(self, name):
        if name in self._wrapped:
            return self._wrapped[name]
        return getattr(self._real, name)


_PATCHED = [False]


def patch_injection_points():
    if _PATCHED[0]:
        return
    _PATCHED[0] = True
    import pickle
    import shutil
    import subprocess
    import tempfile

    u = dawgie.db.util
    sc.fast_digest(False)  # C07 always runs the real md5sum / sha1sum
    assert not sc._HAS_SUBPROCESS or u.subprocess is subprocess
    path = _Proxy(os.path, {'exists': _wrap(os.path.exists, 'os.path.exists')})
    u.os = _Proxy(
        os,
        {
            'close': _wrap(os.close, 'os.close'),
            'chmod': _wrap(os.chmod, 'os.chmod'),
            'unlink': _wrap(os.unlink, 'os.unlink'),
            'path': path,
        },
    )
    u.shutil = _Proxy(shutil, {'move': _wrap(shutil.move, 'shutil.move')})
    u.tempfile = _Proxy(tempfile, {'mkstemp': _wrap(tempfile.mkstemp, 'tempfile.mkstemp')})
    u.pickle = _Proxy(pickle, {'dump': _torn_dump})
    if sc._HAS_SUBPROCESS:
        u.subprocess = _Proxy(subprocess, {'check_output': _wrap(subprocess.check_output, 'subprocess.check_output')})
    u.open = _wrap(builtins.open, 'open')
    real_set = shelve.Shelf.__setitem__
    real_del = shelve.Shelf.__delitem__

    def setitem(self, key, value):
        INJ.hit('table.__setitem__')
        return real_set(self, key, value)

    def delitem(self, key):
        INJ.hit('table.__delitem__')
        return real_del(self, key)

    shelve.Shelf.__setitem__ = setitem
    shelve.Shelf.__delitem__ = delitem


# --------------------------------------------------------------------------
# independent observers
# --------------------------------------------------------------------------


def observe(store):
    '''(files, {file: digest}, prime entries, problems of the catalogue)'''
    files = sc.store_files(store.dbs)
    digests = {fn: sc.file_digest(os.path.join(store.dbs, fn)) for fn in files}
    tabs, idxs = sc.snapshot()
    entries, bad = sc.resolve_prime(tabs)
    bad = bad + [('tables', p) for p in sc.check_tables(tabs, idxs)]
    return files, digests, entries, bad


def entry_name(e):
    return '.'.join([str(e[0]), e[1], e[2], e[3][0], e[4][0], e[5][0]])


class Auditor:
    def __init__(self):
        self.found = []
        self.execs = 0
        self.step = -1
        self.blob_of = {}  # content id -> blob name (identical content kept once)

    def flag(self, clause, signature, observed, expected):
        self.found.append({'clause': clause, 'signature': signature, 'observed': observed, 'expected': expected, 'step': self.step})

    def audit(self, store, where, crash=False):
        files, digests, entries, bad = observe(store)
        pre = 'C07.crash.' if crash else 'C07.'
        for fn in files:
            if digests[fn] != fn:
                self.flag(pre + 'name', 'file-does-not-hash-to-its-name', {'at': where, 'file': fn, 'digest': digests[fn]}, 'name == md5_sha1 of the bytes')
        for e in entries:
            if e[6] not in files:
                self.flag(pre + 'ref', 'dangling-prime-value', {'at': where, 'entry': entry_name(e), 'blob': e[6], 'files': files}, 'blob exists in the store')
        if bad:
            self.flag('C07.crash.reopen' if crash else 'C07.ref', 'catalogue-does-not-resolve', {'at': where, 'problems': bad[:4]}, 'tables consistent')
        by_digest = {}
        for fn in files:
            by_digest.setdefault(digests[fn], []).append(fn)
        for d, fns in by_digest.items():
            if len(fns) > 1:
                self.flag('C07.once', 'same-bytes-in-several-files', {'at': where, 'files': fns}, 'one file per content')
        return files, entries

    # ---- operations ------------------------------------------------------------
    def update(self, store, op, where, crash_context=False):
        '''run one complete update and compare its reports with the statement'''
        _, a, t, run, cis = op
        task, algn = AUTHORS[a]
        vals = [(VN[j], V0, content(ci)) for j, ci in enumerate(cis) if ci is not None]
        alg = sc.make_alg(algn, V0, [(SV, V0, vals)])
        before = set(sc.store_files(store.dbs))
        bot = sc.HTask(task, run, TARGETS[t])
        ds = dawgie.db.connect(alg, bot, TARGETS[t])
        self.execs += 1
        try:
            ds.update()
        except Exception as e:  # pylint: disable=broad-except
            self.flag('C07.crash.retry' if crash_context else 'C07.reports', f'update-raised-{type(e).__name__}', {'at': where, 'op': op, 'error': repr(e)}, 'update completes')
            return
        reports = list(bot.new_values())
        want_names = [f'{run}.{TARGETS[t]}.{task}.{algn}.{SV}.{VN[j]}' for j, ci in enumerate(cis) if ci is not None]
        if sorted(r[0] for r in reports) != sorted(want_names) or not all(isinstance(r[1], bool) for r in reports):
            self.flag('C07.reports', 'report-list', {'at': where, 'op': op, 'reports': reports}, want_names)
            return
        files, _, entries, _ = observe(store)
        blob = {entry_name(e): e[6] for e in entries if e[3][1] == V0 and e[4][1] == V0 and e[5][1] == V0}
        stored = set(before)
        for name, isnew in reports:
            b = blob.get(name)
            if b is None:
                self.flag('C07.ref', 'no-prime-entry-after-update', {'at': where, 'op': op, 'value': name}, 'entry recorded')
                continue
            want = b not in stored
            if isnew != want:
                self.flag(
                    'C07.new',
                    ('reported-new-but-content-was-stored' if isnew else 'reported-old-but-content-was-not-stored') + (':after-crash' if crash_context else ''),
                    {'at': where, 'op': op, 'value': name, 'isnew': isnew, 'blob': b, 'store_before': sorted(stored)},
                    {'isnew': want},
                )
            stored.add(b)
            ci = cis[VN.index(name.rsplit('.', 1)[1])]
            if self.blob_of.setdefault(ci, b) != b:
                self.flag('C07.once', 'identical-content-under-two-names', {'at': where, 'op': op, 'content': ci, 'names': [self.blob_of[ci], b]}, 'one name per content')
            others = sorted(c for c, bb in self.blob_of.items() if bb == b and c != ci)
            if others:
                self.flag('C07.name', 'different-contents-under-one-name', {'at': where, 'op': op, 'contents': [ci] + others, 'name': b}, 'different contents are stored under different names')
        if set(files) != stored:
            self.flag('C07.once', 'store-listing-unexpected', {'at': where, 'op': op, 'files': sorted(files)}, sorted(stored))

    def remove(self, op):
        _, run, t, a, j = op
        self.execs += 1
        try:
            dawgie.db.remove(run, TARGETS[t], AUTHORS[a][0], AUTHORS[a][1], SV, VN[j])
        except KeyError:
            pass  # names never registered

    def purge(self, store, where):
        files, _, entries, _ = observe(store)
        referenced = {e[6] for e in entries}
        store.close()
        self.execs += 1
        argv, handlers = sys.argv, list(logging.getLogger().handlers)
        sys.argv = ['purge.py']
        err = None
        try:
            runpy.run_path(PURGE, run_name='__main__')
        except SystemExit:
            pass
        except Exception as e:  # pylint: disable=broad-except
            err = e
        finally:
            sys.argv = argv
            for h in list(logging.getLogger().handlers):
                if h not in handlers:
                    logging.getLogger().removeHandler(h)
                    h.close()
        store.open()
        if err is not None:
            self.flag('C07.purge', f'purge-raised-{type(err).__name__}', {'at': where, 'error': repr(err)}, 'purge completes')
        after, _, entries_after, _ = observe(store)
        gone = set(files) - set(after)
        if gone & referenced:
            self.flag('C07.purge', 'removed-referenced-file', {'at': where, 'removed': sorted(gone & referenced), 'referenced': sorted(referenced)}, 'only unreferenced files removed')
        if set(after) - set(files):
            self.flag('C07.purge', 'created-files', {'at': where, 'new': sorted(set(after) - set(files))}, 'no new files')
        if {e[:7] for e in entries_after} != {e[:7] for e in entries}:
            self.flag('C07.purge', 'changed-catalogue', {'at': where}, 'prime table untouched')


# --------------------------------------------------------------------------
# part 1: histories
# --------------------------------------------------------------------------


def run_history(case):
    sc.install()
    patch_injection_points()
    INJ.disarm()
    aud = Auditor()
    store = sc.Store(prefix='verif_c07_')
    try:
        store.open()
        for aud.step, op in enumerate(case['ops']):
            where = {'step': aud.step, 'op': op}
            if op[0] == 'update':
                aud.update(store, op, where)
            elif op[0] == 'remove':
                aud.remove(op)
            elif op[0] == 'purge':
                aud.purge(store, where)
            elif op[0] == 'reopen':
                aud.execs += 1
                store.reopen()
            aud.audit(store, where)
    finally:
        store.destroy()
    return aud.found, aud.execs


def random_history(rng):
    ops = []
    pool = rng.sample(range(4), rng.choice([1, 2, 2, 3]))
    for _ in range(rng.randrange(2, 6)):
        k = rng.random()
        if k < 0.62 or not ops:
            cis = [rng.choice(pool + [None]) if rng.random() < 0.15 else rng.choice(pool) for _ in VN]
            if cis == [None, None]:
                cis[0] = pool[0]
            ops.append(['update', rng.randrange(2), rng.randrange(2), rng.choice([1, 2]), cis])
        elif k < 0.80:
            ops.append(['remove', rng.choice([1, 2]), rng.randrange(2), rng.randrange(2), rng.randrange(2)])
        elif k < 0.92:
            ops.append(['purge'])
        else:
            ops.append(['reopen'])
    return {'kind': 'history', 'ops': ops}


def enumerated_histories():
    '''all 2-update histories over 4 places x contents {0,1}^2 (+ purge at the end)'''
    places = [(0, 0, 1), (0, 0, 2), (0, 1, 1), (1, 0, 1)]
    conts = [[0, 0], [0, 1], [1, 0], [1, 1]]
    for c1 in conts:
        for p2 in places:
            for c2 in conts:
                yield {'kind': 'history', 'ops': [['update', 0, 0, 1, c1], ['update', *p2, c2], ['purge']]}


def directed_histories():
    '''run in both tiers, before everything else (never dropped by the time budget)'''
    places = [(0, 0, 1), (0, 0, 2), (0, 1, 1), (1, 0, 1)]
    # the same content under several catalogue entries (other target, other run, other algorithm), then one of the
    # entries is removed: the others still refer to the single stored copy
    for p2 in places[1:]:
        for victim in (['remove', 1, 0, 0, 0], ['remove', p2[2], p2[1], p2[0], 0]):
            yield {'kind': 'history', 'ops': [['update', 0, 0, 1, [0, 1]], ['update', *p2, [0, 1]], victim, ['reopen']]}
            yield {'kind': 'history', 'ops': [['update', 0, 0, 1, [0, 0]], ['update', *p2, [1, 0]], victim, ['purge']]}
    # content that left the store comes back: an entry is overwritten, purge deletes the copy nobody refers to any more,
    # then the same content is stored again (same key, another key, after a reopen or not) - it is new again, and the
    # new entry must find its file (whatever the process remembers about earlier moves)
    for again in (['update', 0, 0, 1, [0, 1]], ['update', 1, 1, 1, [0, 0]], ['update', 0, 1, 2, [None, 0]]):
        yield {'kind': 'history', 'ops': [['update', 0, 0, 1, [0, 1]], ['update', 0, 0, 1, [2, 1]], ['purge'], again, ['reopen']]}
        yield {'kind': 'history', 'ops': [['update', 0, 0, 1, [0, 1]], ['update', 0, 0, 1, [2, 3]], ['purge'], again, ['purge'], again]}
    for a in (4, 6, 8):      # large values sharing all but their last bytes
        yield {'kind': 'history', 'ops': [['update', 0, 0, 1, [a, a + 1]], ['update', 0, 1, 1, [a + 1, a]], ['purge']]}
        yield {'kind': 'history', 'ops': [['update', 0, 0, 1, [a, None]], ['update', 0, 0, 2, [a + 1, None]], ['reopen'], ['update', 1, 1, 1, [a, a]]]}


# --------------------------------------------------------------------------
# part 2: crash injection
# --------------------------------------------------------------------------

SCENARIOS = [
    # everything is new: names, keys, contents
    {'prefix': [], 'victim': ['update', 0, 0, 1, [0, 1]]},
    # overwrite existing keys: v gets new content, w gets content that is stored already (old content 1 becomes garbage)
    {'prefix': [['update', 0, 0, 1, [0, 1]]], 'victim': ['update', 0, 0, 1, [3, 0]]},
    # new keys (other algorithm, target, run), stored content, twice the same content in one update
    {'prefix': [['update', 0, 0, 1, [0, 1]]], 'victim': ['update', 1, 1, 2, [1, 1]]},
    # large content (> 64 KiB), new run of a known identity
    {'prefix': [['update', 0, 0, 1, [0, 2]], ['remove', 1, 0, 0, 1]], 'victim': ['update', 0, 0, 2, [2, 3]]},
    # repeated content: both contents are in the store already AND still referenced by the entries of the other
    # target; the victim stores the same content again for another target (new keys, nothing new in the store)
    {'prefix': [['update', 0, 0, 1, [0, 1]]], 'victim': ['update', 0, 1, 1, [0, 1]]},
    # repeated content for a later run of the same identity (values swapped), the first run keeps referring to it
    {'prefix': [['update', 0, 0, 1, [0, 1]], ['update', 1, 1, 1, [1, 1]]], 'victim': ['update', 0, 0, 2, [1, 0]]},
]
# calls of dawgie.db.util.move: with a stride > 1 these crash points are never skipped
MOVE_POINTS = ('os.path.exists', 'os.unlink', 'shutil.move')


def random_scenario(rng):
    prefix = []
    for _ in range(rng.randrange(0, 4)):
        if rng.random() < 0.8 or not prefix:
            prefix.append(['update', rng.randrange(2), rng.randrange(2), rng.choice([1, 2]), [rng.randrange(4), rng.randrange(4)]])
        else:
            prefix.append(['remove', rng.choice([1, 2]), rng.randrange(2), rng.randrange(2), rng.randrange(2)])
    victim = ['update', rng.randrange(2), rng.randrange(2), rng.choice([1, 2]), [rng.randrange(4), rng.choice([None, 0, 1, 2, 3])]]
    return {'prefix': prefix, 'victim': victim}


def _victim_dataset(op):
    _, a, t, run, cis = op
    task, algn = AUTHORS[a]
    vals = [(VN[j], V0, content(ci)) for j, ci in enumerate(cis) if ci is not None]
    alg = sc.make_alg(algn, V0, [(SV, V0, vals)])
    return dawgie.db.connect(alg, sc.HTask(task, run, TARGETS[t]), TARGETS[t])


def build_base(scenario):
    base = sc.Store(prefix='verif_c07b_')
    base.open()
    aud = Auditor()
    for op in scenario['prefix']:
        if op[0] == 'update':
            aud.update(base, op, {'prefix': op})
        else:
            aud.remove(op)
    base.close()
    return base, aud


def count_points(base, scenario):
    st = base.clone(prefix='verif_c07d_')
    try:
        st.open()
        INJ.arm(None, 'raise')
        _victim_dataset(scenario['victim']).update()
        INJ.disarm()
        return list(INJ.log)
    finally:
        INJ.disarm()
        st.destroy()


def crash_case(base, scenario, k, mode, torn, blob_of, with_purge):
    '''returns (found, execs, label of the crash point)'''
    aud = Auditor()
    aud.blob_of = dict(blob_of)
    st = base.clone(prefix='verif_c07c_')
    label = None
    case = {'kind': 'crash', 'prefix': scenario['prefix'], 'victim': scenario['victim'], 'k': k, 'mode': mode, 'torn': torn}
    try:
        aud.execs += 1
        if mode == 'raise':
            st.open()
            INJ.arm(k, 'raise', torn)
            try:
                _victim_dataset(scenario['victim']).update()
                label = 'completed'
            except Crash as c:
                label = str(c)
            finally:
                INJ.disarm()
            dawgie.db.close()
        else:
            pid = os.fork()
            if pid == 0:
                code = 3
                try:
                    st.open()
                    INJ.arm(k, 'exit', torn)
                    _victim_dataset(scenario['victim']).update()
                    code = 0
                finally:
                    os._exit(code)
            _, status = os.waitpid(pid, 0)
            code = os.waitstatus_to_exitcode(status)
            label = {77: 'crashed', 0: 'completed'}.get(code, f'child-failed-{code}')
            if code not in (0, 77):
                aud.flag('C07.crash.retry', 'update-failed-before-crash-point', {'case': case, 'exit': code}, 'crash point reached')
        where = {'after_crash_before_call': k, 'mode': mode, 'torn': torn}
        try:
            st.open()
        except Exception as e:  # pylint: disable=broad-except
            aud.flag('C07.crash.reopen', f'open-raised-{type(e).__name__}', {'at': where, 'error': repr(e)}, 'store opens')
            return aud.found, aud.execs, label
        aud.audit(st, where, crash=True)
        # the same update is retried by the restarted pipeline
        aud.update(st, scenario['victim'], dict(where, phase='retry'), crash_context=True)
        aud.audit(st, dict(where, phase='after-retry'), crash=True)
        if with_purge:
            aud.purge(st, dict(where, phase='purge-after-retry'))
            aud.audit(st, dict(where, phase='after-purge'), crash=True)
    finally:
        INJ.disarm()
        st.destroy()
    return aud.found, aud.execs, label


def run_scenario(args):
    scenario, modes, purge_every, stride, deadline = args
    sc.install()
    patch_injection_points()
    INJ.disarm()
    out = []
    base, aud0 = build_base(scenario)
    try:
        labels = count_points(base, scenario)
        found0 = [dict(f, case={'kind': 'history', 'ops': scenario['prefix']}) for f in aud0.found]
        execs = aud0.execs + 1
        n = skipped = 0
        points = []
        ks = set(range(1, len(labels) + 1, stride))
        ks.update(k for k in range(1, len(labels) + 1) if labels[k - 1] in MOVE_POINTS)
        for k in sorted(ks):
            variants = [(m, False) for m in modes]
            if labels[k - 1] == 'pickle.dump':
                variants += [(m, True) for m in modes]
            for mode, torn in variants:
                if sc.expired(deadline):
                    skipped += 1
                    continue
                found, e, label = crash_case(base, scenario, k, mode, torn, aud0.blob_of, purge_every and (k % purge_every == 0))
                execs += e
                n += 1
                points.append(labels[k - 1] + ('(torn)' if torn else ''))
                case = {'kind': 'crash', 'prefix': scenario['prefix'], 'victim': scenario['victim'], 'k': k, 'mode': mode, 'torn': torn, 'point': labels[k - 1]}
                out.extend(dict(f, case=case) for f in found)
        return found0 + out, execs, n, labels, skipped
    finally:
        base.destroy()


# --------------------------------------------------------------------------
# entry points
# --------------------------------------------------------------------------


def _histories(args):
    cases, deadline = args
    out = []
    for case in cases:
        if sc.expired(deadline):
            break
        found, execs = run_history(case)
        out.append((case, found, execs))
    return out


def _chunks(seq, n):
    k = max(1, (len(seq) + n - 1) // n)
    return [seq[i : i + k] for i in range(0, len(seq), k)]


def _signature(f):
    sig = f['signature']
    case = f.get('case', {})
    if case.get('kind') == 'crash':
        sig += f"@{case['point']}{'(torn)' if case['torn'] else ''}"
    return sig


def run(tier: str, seed: int) -> dict:
    t0 = time.time()
    rng = random.Random(seed)
    enum = list(enumerated_histories())
    directed = list(directed_histories())
    if tier == 'quick':
        hist = directed + enum[::4] + [random_history(rng) for _ in range(12)]
        # the overwrite scenario at every k in both modes; two more at every 2nd k
        # the repeated-content scenario (content already stored and still referenced elsewhere) at every k as exception;
        # it is cheap and goes first so that an overloaded machine (deadline) never drops it
        scen = [(SCENARIOS[4], ['raise'], 0, 1), (SCENARIOS[1], ['raise', 'exit'], 0, 1), (SCENARIOS[0], ['raise'], 4, 2), (SCENARIOS[2], ['raise'], 0, 2)]
        procs = 1
    else:
        hist = directed + enum + [random_history(rng) for _ in range(900)]
        scen = [(s, ['raise', 'exit'], 2, 1) for s in SCENARIOS + [random_scenario(rng) for _ in range(28)]]
        procs = min(16, os.cpu_count() or 1)
    deadline = t0 + sc.BUDGET_S[tier]
    # single process: the histories may use at most a third of the budget
    h_deadline = deadline if procs > 1 else t0 + sc.BUDGET_S[tier] / 2
    scen = [s + (deadline,) for s in scen]
    if procs > 1:
        import multiprocessing

        with multiprocessing.get_context('fork').Pool(procs) as pool:
            h_async = pool.map_async(_histories, [(c, deadline) for c in _chunks(hist, procs * 4)])
            s_results = pool.map(run_scenario, scen, chunksize=1)
            h_results = [r for part in h_async.get() for r in part]
    else:
        h_results = _histories((hist, h_deadline))
        s_results = [run_scenario(s) for s in scen]
    viol = sc.Violations()
    execs = 0
    sigs = set()
    for case, found, n in h_results:
        execs += n
        sigs.add(repr(case['ops']))
        for f in found:
            viol.add(f['clause'], f['signature'], {'kind': 'history', 'ops': case['ops'][: f['step'] + 1]}, f['observed'], f['expected'])
    crash_cases = 0
    point_kinds = set()
    skipped = len(hist) - len(h_results)
    for (scenario, modes, _, stride, _), (found, n, ncases, labels, sk) in zip(scen, s_results):
        execs += n
        skipped += sk
        crash_cases += ncases
        point_kinds.update(labels)
        for i in range(ncases):
            sigs.add(repr((scenario, i)))
        for f in found:
            viol.add(f['clause'], _signature(f), f['case'], f['observed'], f['expected'])
    return {
        'cases': execs,
        'distinct': len(sigs),
        'rule': (
            f'{len(hist)} histories ({len(directed)} directed ones - shared content then remove, large values differing in their last byte -, {"every 4th of the" if tier == "quick" else "all"} 64 enumerated [update, update at one of 4 places, purge] '
            'histories over contents {0,1}^2, the rest seeded random with 2..5 operations) audited after every operation; '
            f'{len(scen)} crash scenarios x every intercepted call of the victim update (quick tier: every call in both modes for the '
            'overwrite scenario, every call in exception mode for the repeated-content scenario, every 2nd call + every call of '
            f'dawgie.db.util.move (exists / unlink / move) in exception mode for two more) x crash modes = {crash_cases} crash runs '
            f'(intercepted call kinds seen: {sorted(point_kinds)}), each followed by reopen, audit, retry, audit (and purge + audit on a subset); '
            '"cases" = updates/removes/purges/reopens/crash runs executed on the real code, "distinct" = distinct histories + distinct '
            '(scenario, crash point, mode) triples'
        ),
        'exhaustive': False,
        'samples': [hist[0], hist[-1], {'kind': 'crash', 'prefix': SCENARIOS[1]['prefix'], 'victim': SCENARIOS[1]['victim'], 'k': 9, 'mode': 'exit', 'torn': False}],
        'violations': viol.as_list(),
        'clauses': CLAUSES,
        'histories': len(h_results),
        'crash_runs': crash_cases,
        'skipped_for_time': skipped,
        'wall_s': round(time.time() - t0, 2),
    }


def replay(case: dict) -> dict:
    case = case.get('input', case)      # the violation as reported (./check --replay) or its input
    sc.install()
    patch_injection_points()
    if case.get('kind') == 'crash':
        scenario = {'prefix': case['prefix'], 'victim': case['victim']}
        base, aud0 = build_base(scenario)
        try:
            found, _, _ = crash_case(base, scenario, case['k'], case['mode'], case.get('torn', False), aud0.blob_of, True)
        finally:
            base.destroy()
    else:
        found, _ = run_history(case)
    return {
        'reproduced': bool(found),
        'observed': sc.jsonable([f['observed'] for f in found[:3]]),
        'expected': sc.jsonable([f['expected'] for f in found[:3]]),
        'clauses': sorted({f['clause'] for f in found}),
    }
