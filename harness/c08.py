'''C08 - catalogue integrity and exact addressing

Bounded run-time harness on the real shelve back end: short histories of
registrations, updates, loads, removals, resets, traces and close/reopen cycles
over names that are prefixes of one another at every level.  After every
operation the persisted tables / in-memory indices are audited by independent
code and the prime table is compared with a set model written from the
property statement.

A second, seed-independent part ("decimal-prefix ids") builds tables with 13
(thorough: 22) siblings n00..n12 at one level, so that numeric ids which are
decimal prefixes / suffixes of one another coexist (1 and 10..12, 0 and 10,
2 and 12; run ids 1 and 10..12, 21), writes entries for only one of two such
siblings and addresses trace / reset / load / remove at the other one.  The
sibling names are not prefixes of one another, so a failure there can only
come from confusing the ids in the textual keys; its signatures start with
'id-prefix:<level>:'.

A third, seed-independent part ("versions") stores the SAME names (run, target,
task, algorithm, state vector, value) under two versions of the algorithm and /
or the state vector and / or the value - every non-empty subset of the three
levels, all 2 / 4 / 8 version combinations, written in ascending and in
descending order - next to bystanders (same names in another run, on another
target, a value whose name the addressed one prefixes) and addresses trace /
reset / remove at the names.  remove has to delete ALL entries with exactly
those names whatever their versions, and nothing else; its signatures start
with 'versions:<levels>:'.
'''

import itertools
import os
import random
import time

from . import _store_common as sc

import dawgie
import dawgie.db

PROPERTY = 'C08'
BOUND = (
    'real shelve store in a temp dir; histories of <= 6 operations over {write '
    '(Dataset.update), register (db.update, local or via Connector), add target '
    '(local or via Connector), load, remove, reset, trace, close/reopen} with '
    'names from {A,AB,ABC,B} at each of the 5 levels (target, task, algorithm, '
    'state vector, value), 3 algorithm versions, 2 state-vector and value '
    'versions, runs in {1,2,3,10}; a core of 140 six-step histories (every '
    'level x every ordered pair of names) is enumerated, the rest is sampled; plus '
    'an enumerated seed-independent part with 13 (thorough: 22) siblings n00.. at one '
    'of the levels (or run ids 1,2 vs 10,11,12,21,..) for every pair of ids of which '
    'one is a decimal sub-string of the other x {only the long id has entries, only '
    'the short id has entries, both have}; plus an enumerated seed-independent part in which one name (run, target, task, '
    'algorithm, state vector, value) is stored under 2 versions at every non-empty subset of the levels {alg, sv, val} (2/4/8 '
    'entries of the same names) x {ascending, descending write order} x {remove first, trace/reset first, reopen first} '
    '(thorough: x base names {A, AB}), with bystander entries (other run, other target, prefix-named value)'
)

CLAUSES = [
    'C08.tables.bijection',  # R1: name<->id inverse, ids exactly 0..n-1
    'C08.tables.reopen',  # the correspondence survives close and reopen
    'C08.chain',  # every prime key resolves task->alg->sv->value
    'C08.next',  # db.next() > every stored run id
    'C08.catalogue',  # prime entries are exactly the ones written and not removed
    'C08.remove.exact',  # remove deletes exactly the entries with the exact names
    'C08.reset.exact',  # reset takes versions from entries with the exact names
    'C08.reset.absent',  # ... and from nothing else when there is no such entry
    'C08.trace.exact',  # trace reports the exact task.alg only
]

NAMES = ['A', 'AB', 'ABC', 'B']
LEVELS = ['target', 'task', 'alg', 'sv', 'val']
AVERS = [(1, 1, 0), (1, 1, 1), (2, 0, 0)]
SVERS = [(1, 1, 0), (1, 2, 0)]
VVERS = [(1, 1, 0), (3, 0, 0)]
RUNS = [1, 2, 3, 10]
UNSET = (9, 9, 9)  # version of the objects handed to reset()


class Runner:
    def __init__(self, case):
        self.case = case
        self.tag = case.get('tag')  # 'id-prefix:<level>' for the decimal-prefix part
        self.svnames = set()
        self.effective = None
        self.entries = set()  # (run, tn, kn, (an,av), (sn,sv), (vn,vv))
        self.targets = set()
        self.tasks = set()
        self.algs = set()  # (kn, an, av) registered
        self.found = []
        self.execs = 0
        self.step = -1
        self.content = 0

    def flag(self, clause, signature, observed, expected, idsig=None, vsig=None):
        if self.tag and self.tag.startswith('id-prefix'):
            signature = self.tag + ':' + (idsig or signature)
        elif self.tag:
            signature = self.tag + ':' + (vsig or signature)
        self.found.append({'clause': clause, 'signature': signature, 'observed': observed, 'expected': expected, 'step': self.step})

    # ---- audits (independent code) --------------------------------------------
    def audit(self, op):
        tabs, idxs = sc.snapshot()
        for what, detail in sc.check_tables(tabs, idxs):
            self.flag('C08.tables.bijection', what.split('.', 1)[1] + '@' + what.split('.')[0], {'after': op, 'detail': detail}, 'ids 0..n-1, index[table[k]]==k, table[index[i]]==i')
        entries, bad = sc.resolve_prime(tabs)
        for ks, why in bad:
            self.flag('C08.chain', 'unresolvable-prime-key', {'after': op, 'key': ks, 'why': why}, 'resolves through task->alg->sv->value')
        try:
            self.execs += 1
            pk = sorted(dawgie.db._prime_keys())  # pylint: disable=protected-access
            mine = sorted('.'.join([str(e[0]), e[1], e[2], e[3][0], e[4][0], e[5][0]]) for e in entries)
            if pk != mine and not bad:
                self.flag('C08.chain', '_prime_keys-names', {'after': op, '_prime_keys': pk}, mine)
        except Exception as e:  # pylint: disable=broad-except
            self.flag('C08.chain', f'_prime_keys-raised-{type(e).__name__}', {'after': op, 'error': repr(e)}, 'list of names')
        try:
            self.execs += 1
            nxt = dawgie.db.next()
            runs = [e[0] for e in entries]
            if not all(nxt > r for r in runs):
                self.flag('C08.next', 'next-not-greater', {'after': op, 'next': nxt, 'max_run': max(runs)}, '> every stored run id')
        except Exception as e:  # pylint: disable=broad-except
            self.flag('C08.next', f'next-raised-{type(e).__name__}', {'after': op, 'error': repr(e)}, 'an int')
        got = {e[:6] for e in entries}
        if got != self.entries and not bad:
            clause = 'C08.remove.exact' if op[0] == 'remove' else 'C08.catalogue'
            extra = sorted(got - self.entries)
            missing = sorted(self.entries - got)
            sig = ('lost-entries' if missing else '') + ('+' if missing and extra else '') + ('unexpected-entries' if extra else '')
            idsig = op[0] + '-' + sig
            if op[0] == 'remove':
                sig += ':' + self.collision_kind(op, missing)
                idsig = ('remove-deleted-entries-of-other-id' if missing else '') + ('+' if missing and extra else '') + ('remove-kept-the-addressed-entries' if extra else '')
            vsig = None
            if op[0] == 'remove':
                addressed = [op[1], op[2], op[3], op[4], op[5], op[6]]
                same = [e for e in extra if [e[0], e[1], e[2], e[3][0], e[4][0], e[5][0]] == addressed]
                parts = []
                if same:
                    parts.append('remove-kept-entries-with-the-addressed-names')
                if len(same) < len(extra):
                    parts.append('unexpected-entries')
                if missing:
                    parts.append('remove-deleted-entries-of-other-names')
                vsig = '+'.join(parts)
            self.flag(clause, sig, {'after': op, 'missing': missing, 'unexpected': extra}, 'prime == entries written and not removed by exact name', idsig, vsig)
            self.entries = got  # resynchronise: report each divergence once
        return tabs, idxs

    @staticmethod
    def collision_kind(op, missing):
        names = op[2:7]
        kinds = set()
        for e in missing:
            have = [e[1], e[2], e[3][0], e[4][0], e[5][0]]
            for lvl, a, b in zip(LEVELS, names, have):
                if a != b:
                    kinds.add(lvl + ('-prefix' if b.startswith(a) else '-other'))
        return ','.join(sorted(kinds)) or 'none'

    # ---- operations ---------------------------------------------------------------
    def names_registered(self, tn, kn, an, av):
        self.targets.add(tn)
        self.tasks.add(kn)
        self.algs.add((kn, an, tuple(av)))

    def op_write(self, op):
        _, run, tn, kn, an, av, sn, sv, vn, vv = op
        self.content += 1
        alg = sc.make_alg(an, av, [(sn, sv, [(vn, vv, ('content', self.content))])])
        ds = sc.dataset(alg, kn, run, tn)
        ds.update()
        self.names_registered(tn, kn, an, av)
        self.svnames.add(sn)
        self.entries.add((run, tn, kn, (an, tuple(av)), (sn, tuple(sv)), (vn, tuple(vv))))

    def op_register(self, op):
        _, kn, an, av, sn, sv, vn, vv, mode = op
        alg = sc.make_alg(an, av, [(sn, sv, [(vn, vv, None)])])
        svo = alg.state_vectors()[0]
        sc.as_worker(mode == 'conn')
        try:
            dawgie.db.update(sc.HTask(kn, 1, 'A'), alg, svo, vn, svo[vn])
        finally:
            sc.as_worker(False)
        self.tasks.add(kn)
        self.algs.add((kn, an, tuple(av)))
        self.svnames.add(sn)

    def op_add(self, op):
        _, tn, mode = op
        sc.as_worker(mode == 'conn')
        try:
            ok = dawgie.db.add(tn)
        finally:
            sc.as_worker(False)
        self.targets.add(tn)
        if ok is not True:
            self.flag('C08.catalogue', 'add-returned-false', {'op': op, 'returned': ok}, True)

    def op_load(self, op):
        _, run, tn, kn, an, av, sn, sv, vn, vv = op
        alg = sc.make_alg(an, av, [(sn, sv, [(vn, vv, 'placeholder')])])
        sc.dataset(alg, kn, run, tn).load()
        self.names_registered(tn, kn, an, av)
        self.svnames.add(sn)

    def op_remove(self, op):
        _, run, tn, kn, an, sn, vn = op
        try:
            dawgie.db.remove(run, tn, kn, an, sn, vn)
        except KeyError:
            if tn in self.targets and kn in self.tasks:
                raise
            return  # unregistered target/task: nothing to remove (statement silent)
        self.entries = {
            e
            for e in self.entries
            if not (e[0] == run and e[1] == tn and e[2] == kn and e[3][0] == an and e[4][0] == sn and e[5][0] == vn)
        }

    def op_reset(self, op):
        _, run, tn, kn, an = op
        # the object handed to reset() carries every state vector name in use
        svnames = NAMES + sorted(self.svnames - set(NAMES))
        alg = sc.make_alg(an, UNSET, [(n, UNSET, []) for n in svnames])
        try:
            dawgie.db.reset(run, tn, kn, alg)
        except KeyError:
            if tn in self.targets and kn in self.tasks:
                raise
            return
        got_alg = tuple(alg._get_ver())  # pylint: disable=protected-access
        got_sv = {sv.name(): tuple(sv._get_ver()) for sv in alg.state_vectors()}  # pylint: disable=protected-access
        exact = [e for e in self.entries if e[0] == run and e[1] == tn and e[2] == kn and e[3][0] == an]
        others = sorted(e for e in self.entries if e[0] == run and e[1] == tn and e[2] == kn and e[3][0] != an)
        observed = {'alg_version': got_alg, 'sv_versions': {k: v for k, v in got_sv.items() if v != UNSET}}
        if not exact:
            if got_alg != UNSET or any(v != UNSET for v in got_sv.values()):
                kind = 'prefix' if any(e[3][0].startswith(an) for e in others) else 'other'
                self.flag(
                    'C08.reset.absent',
                    f'versions-taken-from-{kind}-named-algorithm',
                    dict(observed, op=op, entries_of_other_algorithms=others),
                    'no entry of this run/target/task carries the exact algorithm name: versions not taken from other algorithms',
                    'reset-took-version-of-other-id',
                )
            return
        avs = {e[3][1] for e in exact}
        if got_alg not in avs:
            self.flag('C08.reset.exact', 'algorithm-version', dict(observed, op=op), {'alg_version_one_of': sorted(avs)}, 'reset-took-algorithm-version-of-other-id')
            return
        for n in svnames:
            svs = {e[4][1] for e in exact if e[3][1] == got_alg and e[4][0] == n}
            if svs and got_sv[n] not in svs:
                self.flag('C08.reset.exact', 'state-vector-version', dict(observed, op=op, sv=n), {'sv_version_one_of': sorted(svs)}, 'reset-took-state-vector-version-of-other-id')
            if not svs and got_sv[n] != UNSET:
                self.flag(
                    'C08.reset.exact',
                    'state-vector-version-from-other-name',
                    dict(observed, op=op, sv=n),
                    'unchanged: no entry with that exact state vector name',
                    'reset-set-state-vector-without-entries-from-other-id',
                )

    def op_trace(self, op):
        tans = [tuple(x) for x in op[1]]
        known = all(kn in self.tasks and any(a[0] == kn and a[1] == an for a in self.algs) for kn, an in tans)
        try:
            result = dawgie.db.trace(['.'.join(t) for t in tans])
        except (KeyError, IndexError) as e:
            if known:
                self.flag('C08.trace.exact', f'trace-raised-{type(e).__name__}', {'op': op, 'error': repr(e)}, 'a report')
            return
        for tn in self.targets:
            if tn not in result:
                self.flag('C08.trace.exact', 'target-missing-from-report', {'op': op, 'result': result, 'target': tn}, 'one row per known target')
                continue
            for kn, an in tans:
                tan = f'{kn}.{an}'
                vers = [a[2] for a in self.algs if a[0] == kn and a[1] == an]
                want = None
                if vers:
                    runs = [e[0] for e in self.entries if e[1] == tn and e[2] == kn and e[3] == (an, max(vers))]
                    want = max(runs) if runs else None
                got = result[tn].get(tan, None)
                if got != want:
                    cands = sorted({(e[3][0], e[0]) for e in self.entries if e[1] == tn and e[2] == kn and e[0] == got and e[3][0] != an})
                    kind = 'prefix-named' if any(c[0].startswith(an) for c in cands) else ('other-named' if cands else 'wrong-run')
                    idsig = 'trace-misses-the-run-of-the-exact-id' if got is None else 'trace-reports-run-of-other-id'
                    self.flag('C08.trace.exact', f'reports-{kind}', {'op': op, 'target': tn, 'task.alg': tan, 'reported': got, 'entries_with_that_run': cands}, {'run': want}, idsig)

    def run(self):
        store = sc.Store(prefix='verif_c08_')
        disp = {
            'write': self.op_write,
            'register': self.op_register,
            'add': self.op_add,
            'load': self.op_load,
            'remove': self.op_remove,
            'reset': self.op_reset,
            'trace': self.op_trace,
        }
        try:
            store.open()
            self.audit(['open'])
            for self.step, op in enumerate(self.case['ops']):
                self.execs += 1
                if op[0] == 'reopen':
                    before = sc.snapshot()
                    store.reopen()
                    after = sc.snapshot()
                    if before != after:
                        diff = [n for n in before[0] if before[0][n] != after[0][n]] + ['index.' + n for n in before[1] if before[1][n] != after[1][n]]
                        self.flag('C08.tables.reopen', 'changed:' + ','.join(diff), {'before': before, 'after': after}, 'identical tables and indices')
                else:
                    try:
                        disp[op[0]](op)
                    except Exception as e:  # pylint: disable=broad-except
                        self.flag('C08.catalogue', f'{op[0]}-raised-{type(e).__name__}', {'op': op, 'error': repr(e)}, 'operation completes')
                # the sibling registrations of the decimal-prefix part are audited once, after the last of them
                if self.step + 1 >= self.case.get('setup', 0):
                    self.audit(op)
            if self.case.get('ids'):
                # did the siblings really get the ids the case is about?
                table, sname, sid, lname, lid = self.case['ids']
                tab = sc.snapshot()[0][table]
                ids = {nm: {i for k, i in tab.items() if sc.parse_key(k)[1] == nm} for nm in (sname, lname)}
                self.effective = sid in ids[sname] and lid in ids[lname]
        finally:
            store.destroy()
        return self.found, self.execs


def run_case(case):
    return Runner(case).run()


# --------------------------------------------------------------------------
# generation
# --------------------------------------------------------------------------


def _names(level, name, base='A'):
    n = {lv: base for lv in LEVELS}
    n[level] = name
    return n


def core_cases():
    V = (1, 1, 0)
    for level in LEVELS:
        for n1, n2 in itertools.product(NAMES, repeat=2):
            a, b = _names(level, n1), _names(level, n2)
            yield {
                'ops': [
                    ['write', 1, a['target'], a['task'], a['alg'], V, a['sv'], V, a['val'], V],
                    ['write', 1, b['target'], b['task'], b['alg'], (1, 1, 1), b['sv'], V, b['val'], V],
                    ['trace', [[a['task'], a['alg']]]],
                    ['reset', 1, a['target'], a['task'], a['alg']],
                    ['remove', 1, a['target'], a['task'], a['alg'], a['sv'], a['val']],
                    ['reopen'],
                ]
            }
            if n1 != n2:
                # only the other name exists; the operations address n1
                yield {
                    'ops': [
                        ['write', 2, b['target'], b['task'], b['alg'], V, b['sv'], V, b['val'], V],
                        ['add', a['target'], 'local'],
                        ['register', a['task'], 'B', V, 'A', V, 'A', V, 'local'],
                        ['remove', 2, a['target'], a['task'], a['alg'], a['sv'], a['val']],
                        ['reset', 2, a['target'], a['task'], a['alg']],
                        ['trace', [[a['task'], a['alg']]]],
                    ]
                }


def random_case(rng):
    # a small sub-pool per level makes collisions and re-use likely
    pool = {lv: rng.sample(NAMES, rng.choice([1, 2, 2, 3])) for lv in LEVELS}
    if rng.random() < 0.7:
        lv = rng.choice(LEVELS)
        pool[lv] = rng.choice([['A', 'AB'], ['AB', 'ABC'], ['A', 'AB', 'ABC'], ['A', 'B']])

    def pick(lv):
        return rng.choice(pool[lv])

    ops = []
    written = []
    for _ in range(rng.randrange(3, 7)):
        k = rng.random()
        if k < 0.42 or not written:
            op = ['write', rng.choice(RUNS), pick('target'), pick('task'), pick('alg'), rng.choice(AVERS), pick('sv'), rng.choice(SVERS), pick('val'), rng.choice(VVERS)]
            written.append(op)
        elif k < 0.50:
            op = ['register', pick('task'), pick('alg'), rng.choice(AVERS), pick('sv'), rng.choice(SVERS), pick('val'), rng.choice(VVERS), rng.choice(['local', 'conn'])]
        elif k < 0.55:
            op = ['add', pick('target'), rng.choice(['local', 'conn'])]
        elif k < 0.60:
            op = ['load', rng.choice(RUNS), pick('target'), pick('task'), pick('alg'), rng.choice(AVERS), pick('sv'), rng.choice(SVERS), pick('val'), rng.choice(VVERS)]
        elif k < 0.75:
            w = rng.choice(written)
            names = [w[2], w[3], w[4], w[6], w[8]]
            if rng.random() < 0.6:  # address a name one level off
                i = rng.randrange(5)
                names[i] = pick(LEVELS[i])
            op = ['remove', rng.choice([w[1], w[1], rng.choice(RUNS)]), *names]
        elif k < 0.84:
            w = rng.choice(written)
            op = ['reset', rng.choice([w[1], w[1], rng.choice(RUNS)]), w[2], w[3], rng.choice([w[4], pick('alg')])]
        elif k < 0.93:
            w = rng.choice(written)
            op = ['trace', [[w[3], rng.choice([w[4], pick('alg')])]]]
        else:
            op = ['reopen']
        ops.append(op)
    return {'ops': ops}


# ---- decimal-prefix ids (seed independent) ----------------------------------
# 13 (thorough: 22) siblings n00, n01, ... are registered in order at one level,
# which gives them the ids 0, 1, ...; their names are not prefixes of one another,
# their ids are (1 / 10, 11, 12 ...).  Everything else is called 'x'.  F_SHORT /
# F_LONG are the versions stored with the short-id / long-id sibling, so that a
# reset which looks at the wrong sibling's entries hands out a visibly wrong one.
X = 'x'
V0 = (1, 1, 0)
F_SHORT = (1, 3, 0)
F_LONG = (2, 4, 0)
ID_SIBLINGS = {'quick': 13, 'thorough': 22}
ID_RUNS = {
    'quick': [(1, 10), (1, 11), (1, 12), (2, 12), (1, 21)],
    'thorough': [(s, l) for l in list(range(10, 32)) + [100, 101, 110, 112, 121, 211] for s in list(range(1, 10)) + [10, 11, 12, 21] if s < l and str(s) in str(l)],
}
ID_TABLE = {'target': 'target', 'task': 'task', 'alg': 'alg', 'sv': 'state', 'val': 'value'}
ID_MODES = ['only-long', 'only-short', 'both']


def _sib(i):
    return f'n{i:02d}'


def id_pairs(n):
    '''(short, long): both below n and short's decimals occur in long's'''
    return [(s, l) for l in range(10, n) for s in range(10) if str(s) in str(l)]


def _thing(level, i, flav, run):
    '''[run, target, task, alg, alg ver, sv, sv ver, value, value ver] of sibling i'''
    n = _names(level, _sib(i), X) if level != 'run' else {lv: X for lv in LEVELS}
    av = flav if level in ('task', 'alg') else V0  # one algorithm id for all runs / targets / state vectors / values
    sv = flav if level != 'val' else V0
    return [run, n['target'], n['task'], n['alg'], av, n['sv'], sv, n['val'], flav]


def _id_ops(short, long, mode):
    def trace():
        tans = [[short[2], short[3]]]
        if [long[2], long[3]] not in tans:
            tans.append([long[2], long[3]])
        return ['trace', tans]

    def write(t):
        return ['write', *t]

    def load(t):
        return ['load', *t]

    def reset(t):
        return ['reset', t[0], t[1], t[2], t[3]]

    def remove(t):
        return ['remove', t[0], t[1], t[2], t[3], t[5], t[7]]

    if mode == 'both':
        return [
            write(short),
            write(long),
            trace(),
            reset(short),
            reset(long),
            load(short),
            remove(short),  # long's entry stays
            reset(long),
            reset(short),  # nothing left for it: versions untouched
            trace(),
            ['reopen'],
            remove(long),
        ]
    have, addr = (long, short) if mode == 'only-long' else (short, long)
    return [
        write(have),
        trace(),
        reset(addr),  # no entry under that id: versions untouched
        load(addr),
        remove(addr),  # nothing to remove
        reset(have),
        trace(),
        ['reopen'],
        remove(have),
    ]


def id_prefix_cases(tier):
    n = ID_SIBLINGS[tier]
    for level in LEVELS:
        for s, l in id_pairs(n):
            for mode in ID_MODES:
                setup = []
                for i in range(n):
                    t = _thing(level, i, F_LONG if i == l else F_SHORT, 11)
                    if level == 'target':
                        setup.append(['add', t[1], 'local'])
                    else:
                        setup.append(['register', *t[2:], 'local'])
                short, long = _thing(level, s, F_SHORT, 11), _thing(level, l, F_LONG, 11)
                yield {
                    'tag': 'id-prefix:' + level,
                    'ids': [ID_TABLE[level], _sib(s), s, _sib(l), l],
                    'what': f'{level} ids {s} / {l}, {mode}',
                    'setup': len(setup),
                    'ops': setup + _id_ops(short, long, mode),
                }
    for rs, rl in ID_RUNS[tier]:
        for mode in ID_MODES:
            short, long = _thing('run', 0, F_SHORT, rs), _thing('run', 0, F_LONG, rl)
            yield {'tag': 'id-prefix:run', 'what': f'run ids {rs} / {rl}, {mode}', 'ops': _id_ops(short, long, mode)}


# ---- one name under several versions (seed independent) ----------------------
# The same (run, target, task, algorithm, state vector, value) NAMES are stored
# under two versions at every non-empty subset of the three versioned levels
# (2, 4 or 8 prime entries that differ in nothing but versions), in ascending
# and in descending order of the versions, surrounded by bystanders that differ
# in exactly one name or in the run.  remove / reset / trace are addressed by
# name: remove has to take away all of those entries and nothing else.
VER_LEVELS = ['alg', 'sv', 'val']
VER_SECOND = {'alg': AVERS[2], 'sv': SVERS[1], 'val': VVERS[1]}
VER_BASES = {'quick': ['A'], 'thorough': ['A', 'AB']}
VER_PLANS = ['remove-first', 'observe-first', 'reopen-first']


def version_cases(tier):
    V = (1, 1, 0)
    for base in VER_BASES[tier]:
        other = {'A': 'AB', 'AB': 'ABC'}[base]  # a name that `base` is a prefix of
        for size in (1, 2, 3):
            for subset in itertools.combinations(VER_LEVELS, size):
                combos = list(itertools.product(*[[V, VER_SECOND[lv]] if lv in subset else [V] for lv in VER_LEVELS]))
                for order in ('ascending', 'descending'):
                    seq = combos if order == 'ascending' else combos[::-1]
                    writes = [['write', 1, base, base, base, av, base, sv, base, vv] for av, sv, vv in seq]
                    prefix_value = ['write', 1, base, base, base, V, base, V, other, V]
                    other_run = ['write', 2, base, base, base, V, base, V, base, V]
                    other_target = ['write', 1, other, base, base, V, base, V, base, V]
                    remove = ['remove', 1, base, base, base, base, base]
                    trace = ['trace', [[base, base]]]
                    reset = ['reset', 1, base, base, base]
                    for plan in VER_PLANS:
                        ops = [prefix_value] + writes + [other_run, other_target]
                        if plan == 'remove-first':
                            ops += [remove, reset, trace, ['reopen'], ['remove', 2, base, base, base, base, base]]
                        elif plan == 'observe-first':
                            ops += [trace, reset, remove, ['reopen'], trace, reset]
                        else:
                            ops += [['reopen'], remove, trace, ['reopen']]
                        yield {
                            'tag': 'versions:' + '+'.join(subset),
                            'what': f'names {base} stored under {len(combos)} version combinations of {"/".join(subset)} ({order}), {plan}',
                            'ops': ops,
                        }


def _work(args):
    cases, deadline = args
    sc.install()
    sc.fast_digest(True)
    out = []
    for case in cases:
        if sc.expired(deadline):
            break
        runner = Runner(case)
        found, execs = runner.run()
        out.append((case, found, execs, runner.effective))
    return out


def _chunks(seq, n):
    k = max(1, (len(seq) + n - 1) // n)
    return [seq[i : i + k] for i in range(0, len(seq), k)]


def run(tier: str, seed: int) -> dict:
    t0 = time.time()
    rng = random.Random(seed)
    core = list(core_cases())
    if tier == 'quick':
        nrand, procs = 400, 1
    else:
        nrand, procs = 24000, min(16, os.cpu_count() or 1)
    rand = [random_case(rng) for _ in range(nrand)]
    idp = list(id_prefix_cases(tier))  # seed independent
    ver = list(version_cases(tier))  # seed independent
    cases = core + idp + ver + rand
    deadline = t0 + sc.BUDGET_S[tier]
    # the enumerated parts are small and never dropped for time; the sampled part stops at the deadline
    if procs > 1:
        import multiprocessing

        jobs = [((core + idp + ver)[i :: procs * 2], None) for i in range(procs * 2)]
        jobs += [(rand[i :: procs * 8], deadline) for i in range(procs * 8)]
        with multiprocessing.get_context('fork').Pool(procs) as pool:
            parts = pool.map(_work, [j for j in jobs if j[0]], chunksize=1)
        results = [r for part in parts for r in part]
    else:
        results = _work((core + idp + ver, None)) + _work((rand, deadline))
    skipped = len(cases) - len(results)
    viol = sc.Violations()
    execs = 0
    sigs = set()
    id_execs = id_hist = id_effective = 0
    ver_execs = ver_hist = 0
    for case, found, n, effective in results:
        execs += n
        sigs.add(repr(case['ops']))
        if case.get('tag', '').startswith('id-prefix'):
            id_execs += n
            id_hist += 1
            id_effective += effective is not False
        elif case.get('tag'):
            ver_execs += n
            ver_hist += 1
        for f in found:
            inp = {'ops': case['ops'][: f['step'] + 1]}
            if case.get('tag'):
                inp.update(tag=case['tag'], what=case['what'], setup=case.get('setup', 0))
            viol.add(f['clause'], f['signature'], inp, f['observed'], f['expected'])
    return {
        'cases': execs,
        'distinct': len(sigs),
        'rule': (
            f'{len(core)} enumerated core histories (for each of the 5 levels and each ordered pair (n1,n2) of names: write n1-entry, '
            'write n2-entry, trace/reset/remove addressed at n1, reopen; and for n1 != n2 the variant where only the n2-entry exists) '
            f'+ {nrand} seeded random histories of 3..6 operations over small per-level name pools; after every operation the tables, '
            'indices, prime chain, next() and the prime-entry model are audited; "cases" counts operations and observer calls executed '
            'on the real code, "distinct" counts distinct histories (all contain at least one write); '
            f'+ {len(idp)} enumerated, seed-independent decimal-prefix-id histories: {ID_SIBLINGS[tier]} siblings n00.. registered at one of the 5 levels '
            f'(ids 0..{ID_SIBLINGS[tier] - 1}) x every pair of ids (s,l), s one digit, l two, the digit of s occurring in l {id_pairs(ID_SIBLINGS[tier])[:5]}.. '
            f'and {len(ID_RUNS[tier])} pairs of run ids x {{only l has entries, only s has, both have}}: trace / reset / load / remove addressed at the one '
            'without entries (or at each in turn), reopen, final remove, audited after every operation (the sibling registrations once, after the last); a history counts as effective when the two siblings really hold the ids s and l; '
            f'+ {len(ver)} enumerated, seed-independent version histories: one set of names stored under 2 versions at each non-empty subset of '
            '{alg, sv, val} (2/4/8 prime entries with identical names) x {ascending, descending write order} x {remove first, trace/reset first, '
            f'reopen first}} x base names {VER_BASES[tier]}, plus bystanders (prefix-named value, other run, other target); remove / reset / trace '
            'addressed at the names, audited after every operation'
        ),
        'exhaustive': False,
        'samples': [core[1], core[2], rand[0], rand[1], idp[7], ver[10]],
        'violations': viol.as_list(),
        'clauses': CLAUSES,
        'histories': len(results),
        'id_prefix': {'histories': id_hist, 'of': len(idp), 'effective': id_effective, 'cases': id_execs},
        'versions': {'histories': ver_hist, 'of': len(ver), 'cases': ver_execs},
        'skipped_for_time': skipped,
        'wall_s': round(time.time() - t0, 2),
    }


def replay(case: dict) -> dict:
    # accepts the violation as reported (what ./check --replay hands over) or its 'input'
    want = case.get('clause') if 'input' in case else None
    case = case.get('input', case)
    sc.install()
    sc.fast_digest(True)
    found, _ = run_case(case)
    if want is not None:
        found = [f for f in found if f['clause'] == want] + [f for f in found if f['clause'] != want]
    return {
        'reproduced': bool(found) if want is None else any(f['clause'] == want for f in found),
        'signatures': sorted({f['signature'] for f in found}),
        'observed': sc.jsonable([f['observed'] for f in found[:3]]),
        'expected': sc.jsonable([f['expected'] for f in found[:3]]),
        'clauses': sorted({f['clause'] for f in found}),
    }
