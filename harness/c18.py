'''Bounded run-time harness for C18 (execution history / chronicle).

Real code driven: dawgie.pl.logger.chronicle.append / find and
dawgie.pl.schedule.complete, on a chronicle kept in a temp directory, with the
clocks of both modules injected.  The oracle is a brute-force filter of the
list of everything that was appended (never the files, never the code).
Besides "record a history, then query it" (fresh chronicle per history) the
"polled" part alternates appends and queries on one chronicle in one process.
'''

import datetime as _dt
import json
import logging
import os
import random
import shutil
import tempfile

PROPERTY = 'C18'
BOUND = (
    'histories of <= 8 entries with completion times on the grid {00:00:00, 00:00:01, 11:59:00, '
    '23:59:59.999999} x 2-3 days across month / year / leap-day / sparse-directory boundaries, both outcomes '
    '(+ one "invalid"), run ids {1,2,17}, appended via chronicle.append and schedule.complete in any order; '
    'queries: every (after, before) with bounds in {None} + (same grid +-1 us), every limit 0..9 and None, '
    'succeeded True/False, "now" injected after the newest entry (5 fixed + 3 seeded histories quick; '
    '5 fixed + 95 seeded histories thorough; two-sided windows take one rotating limit each in quick, all 11 in thorough); '
    'plus fixed "interleaved" histories (8 entries, 3 run-id files in each of 2 days, an OLDER run id completing AFTER a '
    'newer one within the day for both outcomes; 2 day groups quick, all 5 thorough) queried the same way; '
    'plus fixed "polled" histories in ONE process and ONE chronicle (12 entries appended in 3 rounds, rounds 2 and 3 '
    'adding to journal files / day directories that earlier queries already read as well as to new files and new days; '
    'the whole query set after every round against everything recorded so far; 1 day group quick, all 5 thorough)'
)

REPO = os.environ.get('VERIF_REPO', '/repo')

import dawgie  # noqa: E402

assert dawgie.__file__.startswith(REPO + '/Python/'), dawgie.__file__

import dawgie.context  # noqa: E402
import dawgie.pl.dag  # noqa: E402
import dawgie.pl.logger.chronicle as chronicle  # noqa: E402
import dawgie.pl.schedule as schedule  # noqa: E402
from dawgie.pl.jobinfo import State  # noqa: E402

logging.disable(logging.CRITICAL)

UTC = _dt.timezone.utc
US = _dt.timedelta(microseconds=1)
CLAUSES = [
    'C18.append.once',
    'C18.append.outcome',
    'C18.append.keeps',
    'C18.find.window',
    'C18.find.order',
    'C18.find.truncate',
]
TOD = [(0, 0, 0, 0), (0, 0, 1, 0), (11, 59, 0, 0), (23, 59, 59, 999999)]
GROUPS = {
    'year': ['2023-12-30', '2023-12-31', '2024-01-01'],
    'leap': ['2024-02-28', '2024-02-29', '2024-03-01'],
    'month30': ['2024-04-30', '2024-05-01'],
    'noleap': ['2025-02-28', '2025-03-01'],
    'sparse': ['2023-11-30', '2024-01-01', '2025-03-01'],
}
TASKS = ['disk.engine', 'network.analyzer', 'review.history']
RUNIDS = [1, 2, 17]

# ---------------------------------------------------------------- clocks
_NOW = [_dt.datetime(2030, 1, 1, tzinfo=UTC)]
_REAL_DT = _dt.datetime


class _Meta(type):
    def __instancecheck__(cls, inst):
        return isinstance(inst, _REAL_DT)


class _FakeDT(_REAL_DT, metaclass=_Meta):
    '''datetime whose now() is controllable; isinstance() accepts real datetimes'''

    @classmethod
    def now(cls, tz=None):
        return _NOW[0] if tz is not None else _NOW[0].replace(tzinfo=None)


class _FakeModule:
    '''stands in for the module `datetime` inside dawgie.pl.schedule'''

    datetime = _FakeDT

    def __getattr__(self, name):
        return getattr(_dt, name)


chronicle.datetime = _FakeDT
schedule.datetime = _FakeModule()


class _Alg:
    def asstring(self):
        return '1.2.3'


# ---------------------------------------------------------------- helpers
def _t(day: str, tod: int) -> _dt.datetime:
    y, m, d = (int(x) for x in day.split('-'))
    h, mi, s, us = TOD[tod]
    return _dt.datetime(y, m, d, h, mi, s, us, tzinfo=UTC)


def _iso(t):
    return None if t is None else t.isoformat()


def _parse(s):
    return None if s is None else _dt.datetime.fromisoformat(s)


def _fixed_history(group: str) -> list:
    days = GROUPS[group]
    pattern = [  # (day index, tod, status, runid index, via)
        (0, 2, 'success', 0, 'append'),
        (1, 0, 'success', 0, 'complete'),
        (0, 3, 'failure', 1, 'complete'),
        (1, 2, 'success', 0, 'append'),  # same (day, runid) file as entry 1
        (-1, 1, 'failure', 2, 'append'),
        (0, 2, 'success', 0, 'complete'),  # same instant and file as entry 0
        (-1, 3, 'success', 1, 'complete'),
        (1, 1, 'invalid', 0, 'complete'),  # third entry of the file of entries 1 and 3
    ]
    out = []
    for i, (di, tod, status, ri, via) in enumerate(pattern):
        out.append(
            {
                'completed': _iso(_t(days[di], tod)),
                'status': status,
                'runid': RUNIDS[ri],
                'target': f'T{i}' if i != 6 else '__all__',
                'task': TASKS[i % len(TASKS)],
                'via': via,
            }
        )
    return out


INTERLEAVED_GROUPS = {'quick': ['leap', 'month30'], 'thorough': sorted(GROUPS)}


def _interleaved_history(group: str) -> list:
    '''several run-id files per day directory; inside a day an older run id
    completes after a newer one (run 1 after runs 2 and 17, run 2 after run 17),
    for successes and for failures, so that "newest first" and "the newest
    `limit`" differ from any order that looks at the run id first'''
    days = GROUPS[group]
    pattern = [  # (day index, tod, status, run id, via)
        (0, 0, 'success', 17, 'append'),
        (0, 1, 'success', 2, 'complete'),
        (0, 2, 'success', 1, 'append'),
        (0, 3, 'failure', 1, 'complete'),
        (0, 1, 'failure', 17, 'append'),
        (-1, 0, 'success', 2, 'append'),
        (-1, 3, 'success', 1, 'complete'),
        (-1, 2, 'success', 17, 'append'),
    ]
    out = []
    for i, (di, tod, status, runid, via) in enumerate(pattern):
        out.append(
            {
                'completed': _iso(_t(days[di], tod)),
                'status': status,
                'runid': runid,
                'target': f'I{i}',
                'task': TASKS[i % len(TASKS)],
                'via': via,
            }
        )
    return out


POLLED_GROUPS = {'quick': ['leap'], 'thorough': sorted(GROUPS)}


def _polled_rounds(group: str) -> list:
    '''rounds of appends between which the history is queried (one process, one
    chronicle): rounds 2 and 3 add to (day, run id) journal files that the
    queries of the earlier rounds already read, to new files of days already
    read and to days that did not exist before'''
    days = GROUPS[group]
    pattern = [  # per round: (day index, tod, status, run id, via)
        [
            (0, 2, 'success', 1, 'append'),
            (0, 1, 'failure', 1, 'complete'),
            (1, 0, 'success', 2, 'complete'),
            (1, 2, 'success', 17, 'append'),
        ],
        [
            (0, 3, 'success', 1, 'complete'),  # file of round 1, already queried
            (0, 0, 'failure', 1, 'append'),  # file of round 1, already queried
            (1, 1, 'success', 2, 'append'),  # file of round 1, already queried
            (0, 1, 'success', 17, 'append'),  # new file in a day already queried
            (1, 3, 'failure', 17, 'complete'),  # first failure of a file already queried
        ],
        [
            (1, 3, 'success', 17, 'complete'),  # file queried in rounds 1 and 2
            (0, 0, 'success', 1, 'append'),  # oldest entry of a file queried twice
            (1, 1, 'failure', 2, 'append'),  # file queried twice
        ],
    ]
    if len(days) > 2:  # the last day only appears after the first round(s) of queries
        pattern[1].append((2, 0, 'success', 1, 'complete'))  # new day directory
        pattern[2].append((2, 2, 'failure', 1, 'append'))  # file created in round 2
        pattern[2].append((2, 1, 'success', 2, 'append'))  # new file in the new day
    else:
        pattern[1].append((1, 3, 'success', 1, 'complete'))  # new file, newest entry so far
        pattern[2].append((1, 2, 'failure', 1, 'append'))  # file created in round 2
    out = []
    i = 0
    for rnd in pattern:
        out.append([])
        for di, tod, status, runid, via in rnd:
            out[-1].append(
                {
                    'completed': _iso(_t(days[di], tod)),
                    'status': status,
                    'runid': runid,
                    'target': f'P{i}',
                    'task': TASKS[i % len(TASKS)],
                    'via': via,
                }
            )
            i += 1
    return out


def _seeded_history(rng: random.Random, idx: int) -> (str, list):
    group = sorted(GROUPS)[rng.randrange(len(GROUPS))]
    days = GROUPS[group]
    n = rng.randint(3, 8)
    out = []
    for i in range(n):
        out.append(
            {
                'completed': _iso(_t(rng.choice(days), rng.randrange(4))),
                'status': rng.choice(['success', 'success', 'failure']),
                'runid': rng.choice(RUNIDS + [1, 1]),
                'target': f'S{idx}_{i}',
                'task': rng.choice(TASKS),
                'via': rng.choice(['append', 'complete']),
            }
        )
    return group, out


def _disk(root: str) -> list:
    '''everything that can be read back from the journal files, layout-agnostic'''
    found = []
    for dn, _sub, fns in os.walk(root):
        for fn in fns:
            if fn.endswith('.json'):
                with open(os.path.join(dn, fn), 'rt', encoding='utf-8') as f:
                    content = json.load(f)
                found.extend(content if isinstance(content, list) else [content])
    return found


def _key(entry: dict):
    '''identity of a recorded entry as read back from disk / returned by find'''
    try:
        completed = _dt.datetime.fromisoformat(str(entry['timing']['completed']))
        return (
            completed.astimezone(UTC),
            entry['status'],
            int(entry['runid']),
            entry['target'],
            entry['task'],
        )
    except Exception as e:  # pylint: disable=broad-exception-caught
        return ('unreadable', repr(e), json.dumps(entry, default=str, sort_keys=True))


def _show(k):
    return ' '.join(x.isoformat() if isinstance(x, _dt.datetime) else str(x) for x in k)


def _spec_key(spec: dict):
    return (
        _parse(spec['completed']),
        spec['status'],
        spec['runid'],
        spec['target'],
        spec['task'],
    )


def _do_append(spec: dict):
    '''record one completed unit of work through the real code'''
    when = _parse(spec['completed'])
    if spec['via'] == 'append':
        chronicle.append(
            {
                'changeset': 'deadbeef',
                'runid': spec['runid'],
                'status': spec['status'],
                'target': spec['target'],
                'task': spec['task'],
                'timing': {
                    'started': when - _dt.timedelta(seconds=5),
                    'completed': when,
                },
                'version': '1.2.3',
            }
        )
    else:
        node = dawgie.pl.dag.Node(spec['task'])
        node.set('todo', set())
        node.set('do', set())
        node.set('doing', {spec['target']} if spec['runid'] != 2 else {spec['target'], 'other'})
        node.set('alg', _Alg())
        node.set('status', State.running)
        node.set('level', 0)
        schedule.que.append(node)
        _NOW[0] = when
        schedule.complete(
            node,
            spec['runid'],
            spec['target'],
            {'started': when - _dt.timedelta(seconds=5)},
            State[spec['status']],
        )
        _NOW[0] = _dt.datetime(2030, 1, 1, tzinfo=UTC)
        if node in schedule.que:
            schedule.que.remove(node)


def _reset_sched():
    schedule.que.clear()
    schedule.err.clear()
    schedule.suc.clear()
    dawgie.context.git_rev = 'deadbeef'


def _multiset_diff(a: list, b: list):
    '''(in a not in b, in b not in a) as multisets'''
    bb = list(b)
    only_a = []
    for x in a:
        if x in bb:
            bb.remove(x)
        else:
            only_a.append(x)
    return only_a, bb


def _record_one(spec: dict, root: str, i: int) -> list:
    '''append one entry through the real code, checking the append clauses on the files'''
    problems = []
    before = [_key(e) for e in _disk(root)]
    try:
        _do_append(spec)
        err = None
    except Exception as e:  # pylint: disable=broad-exception-caught
        err = repr(e)
    after = [_key(e) for e in _disk(root)]
    lost, gained = _multiset_diff(before, after)
    want = _spec_key(spec)
    if lost:
        problems.append(
            ('C18.append.keeps', f'lost-earlier-entry:{spec["via"]}', i,
             {'lost': [_show(x) for x in lost]}, 'every earlier entry still recorded')
        )
    if err is not None or len(gained) != 1:
        problems.append(
            ('C18.append.once', f'appended-{min(len(gained), 2)}-entries:{spec["via"]}', i,
             {'appended': [_show(x) for x in gained], 'error': err}, 'exactly one entry appended')
        )
    elif gained[0] != want:
        problems.append(
            ('C18.append.outcome', f'wrong-entry:{spec["via"]}', i,
             {'appended': _show(gained[0])}, _show(want))
        )
    return problems


def _record_all(history: list, root: str):
    '''append every entry, checking the append clauses; returns (problems, cases)'''
    problems = []
    for i, spec in enumerate(history):
        problems.extend(_record_one(spec, root, i))
    return problems, len(history)


def _bounds(group: str) -> list:
    pts = set()
    for day in GROUPS[group]:
        for tod in range(4):
            t = _t(day, tod)
            pts.update([t - US, t, t + US])
    return sorted(pts)


def _nows(history: list, group: str) -> list:
    newest = max(_parse(s['completed']) for s in history)
    last = max(newest, _t(GROUPS[group][-1], 3))
    nxt = (last + _dt.timedelta(days=1)).replace(hour=0, minute=0, second=0, microsecond=0)
    return [
        newest + US,
        nxt,
        nxt.replace(hour=6),
        nxt.replace(hour=23, minute=59, second=59, microsecond=999999),
        (nxt + _dt.timedelta(days=40)).replace(hour=6),
        (nxt + _dt.timedelta(days=400)).replace(hour=0, second=1),
    ]


def _queries(history: list, group: str, tier: str, salt: int):
    '''every query of the bounded space for one history (the unspecified only-after + limit is skipped)'''
    bounds = _bounds(group)
    limits = list(range(10)) + [None]
    nows = _nows(history, group)
    k = salt
    for succeeded in (True, False):
        for a in bounds:
            for b in bounds:
                k += 1
                for lim in limits if tier == 'thorough' else (limits[k % 11],):
                    yield (a, b, lim, succeeded, nows[0])
        for b in bounds:
            for lim in limits:
                yield (None, b, lim, succeeded, nows[0])
        for a in bounds:
            for now in nows[:3] if tier == 'quick' else nows:
                yield (a, None, None, succeeded, now)
        for lim in limits[:-1]:
            for now in nows:
                yield (None, None, lim, succeeded, now)


def _check_find(history: list, query) -> list:
    '''run one query on the real code and compare with the brute-force filter'''
    after, before, limit, succeeded, now = query
    _NOW[0] = now
    try:
        got = chronicle.find(after=after, before=before, limit=limit, succeeded=succeeded)
    except Exception as e:  # pylint: disable=broad-exception-caught
        return [('C18.find.window', 'raised', repr(e), 'a list of entries')], False
    finally:
        _NOW[0] = _dt.datetime(2030, 1, 1, tzinfo=UTC)
    upper = now if before is None else before
    status = 'success' if succeeded else 'failure'
    window = [
        _spec_key(s)
        for s in history
        if s['status'] == status
        and (after is None or after < _parse(s['completed']))
        and _parse(s['completed']) < upper
    ]
    window.sort(key=lambda k: k[0], reverse=True)
    keys = [_key(e) for e in got]
    shape = ('A' if after is not None else '-') + ('B' if before is not None else '-') + (
        'L' if limit is not None else '-'
    )
    problems = []
    times = [k[0] for k in keys if isinstance(k[0], _dt.datetime)]
    if len(times) == len(keys) and any(x < y for x, y in zip(times, times[1:])):
        problems.append(
            ('C18.find.order', f'not-newest-first[{shape}]', [_show(k) for k in keys], 'completion times non-increasing')
        )
    whole = (after is not None and before is not None) or limit is None
    extra, missing = _multiset_diff(keys, window)
    if whole:
        if extra or missing:
            kind = '+'.join((['missing'] if missing else []) + (['extra'] if extra else []))
            problems.append(
                ('C18.find.window', f'{kind}[{shape}]',
                 {'returned': [_show(k) for k in keys], 'missing': [_show(k) for k in missing],
                  'extra': [_show(k) for k in extra]},
                 [_show(k) for k in window])
            )
    else:
        want_times = [k[0] for k in window][:limit]
        if extra:
            problems.append(
                ('C18.find.window', f'extra[{shape}]',
                 {'returned': [_show(k) for k in keys], 'extra': [_show(k) for k in extra]},
                 'only entries of the window: ' + str([_show(k) for k in window]))
            )
        elif sorted(times, reverse=True) != want_times or len(keys) != len(want_times):
            problems.append(
                ('C18.find.truncate', f'not-the-newest-{"limit" if len(keys) <= len(want_times) else "overlong"}[{shape}]',
                 {'returned': [_show(k) for k in keys]},
                 {'newest': [_show(k) for k in window[:limit]], 'count': len(want_times)})
            )
    nontrivial = bool(window)
    return problems, nontrivial


def _qjson(query) -> dict:
    after, before, limit, succeeded, now = query
    return {'after': _iso(after), 'before': _iso(before), 'limit': limit, 'succeeded': succeeded, 'now': _iso(now)}


def _qparse(q: dict):
    return (_parse(q['after']), _parse(q['before']), q['limit'], q['succeeded'], _parse(q['now']))


def _run_case(history: list, query) -> list:
    '''fresh chronicle, record the history, run one query; returns find problems'''
    root = tempfile.mkdtemp(prefix='c18_')
    try:
        dawgie.context.data_dbs = root
        _reset_sched()
        for spec in history:
            try:
                _do_append(spec)
            except Exception:  # pylint: disable=broad-exception-caught
                pass
        problems, _nt = _check_find(history, query)
        return problems
    finally:
        shutil.rmtree(root, ignore_errors=True)
        _reset_sched()


def _minimise(history: list, query, clause: str, signature: str) -> list:
    '''greedy one-at-a-time removal of entries while the same violation remains'''
    cur = list(history)
    changed = True
    while changed and len(cur) > 1:
        changed = False
        for i in range(len(cur)):
            cand = cur[:i] + cur[i + 1:]
            if any(p[0] == clause and p[1] == signature for p in _run_case(cand, query)):
                cur = cand
                changed = True
                break
    return cur


def _scenario(args):
    '''one history: record it (append clauses), then every query (find clauses)'''
    name, group, history, tier, salt = args
    root = tempfile.mkdtemp(prefix='c18_')
    out = {'cases': 0, 'nontrivial': 0, 'violations': {}, 'sample': None}
    try:
        dawgie.context.data_dbs = root
        _reset_sched()
        problems, n = _record_all(history, root)
        out['cases'] += n
        for clause, sig, upto, observed, expected in problems:
            slot = out['violations'].setdefault((clause, sig), {'count': 0})
            slot['count'] += 1
            if 'input' not in slot:
                slot.update(
                    {'input': {'kind': 'append', 'history': history[: upto + 1]},
                     'observed': observed, 'expected': expected}
                )
        first = {}
        for query in _queries(history, group, tier, salt):
            dawgie.context.data_dbs = root
            problems, nontrivial = _check_find(history, query)
            out['cases'] += 1
            out['nontrivial'] += 1 if nontrivial else 0
            if nontrivial and out['sample'] is None and query[0] is not None and query[1] is not None:
                out['sample'] = {'history': name, 'entries': len(history), 'query': _qjson(query)}
            for clause, sig, observed, expected in problems:
                slot = out['violations'].setdefault((clause, sig), {'count': 0})
                slot['count'] += 1
                if (clause, sig) not in first:
                    first[(clause, sig)] = (query, observed, expected)
        for (clause, sig), (query, observed, expected) in first.items():
            small = _minimise(history, query, clause, sig)
            again = [p for p in _run_case(small, query) if p[0] == clause and p[1] == sig]
            if again:
                observed, expected = again[0][2], again[0][3]
            else:
                small = history
            out['violations'][(clause, sig)].update(
                {'input': {'kind': 'find', 'history': small, 'query': _qjson(query)},
                 'observed': observed, 'expected': expected}
            )
    finally:
        shutil.rmtree(root, ignore_errors=True)
        _reset_sched()
    out['violations'] = [
        {'clause': c, 'signature': s, **v} for (c, s), v in out['violations'].items()
    ]
    return out


def _run_steps(steps: list) -> list:
    '''fresh chronicle, ONE process: run appends and queries in the given order,
    every query compared with the brute-force filter of what was appended before
    it; returns [(step index, clause, signature, observed, expected)]'''
    root = tempfile.mkdtemp(prefix='c18_')
    found = []
    recorded = []
    try:
        dawgie.context.data_dbs = root
        _reset_sched()
        for n, step in enumerate(steps):
            dawgie.context.data_dbs = root
            if 'append' in step:
                for clause, sig, _i, observed, expected in _record_one(step['append'], root, len(recorded)):
                    found.append((n, clause, 'interleaved-append:' + sig, observed, expected))
                recorded.append(step['append'])
            else:
                problems, _nt = _check_find(recorded, _qparse(step['query']))
                for clause, sig, observed, expected in problems:
                    found.append((n, clause, 'interleaved-query:' + sig, observed, expected))
    finally:
        shutil.rmtree(root, ignore_errors=True)
        _reset_sched()
    return found


def _fails_last(steps: list, clause: str, signature: str) -> list:
    return [p for p in _run_steps(steps) if p[0] == len(steps) - 1 and p[1] == clause and p[2] == signature]


def _shrink_steps(steps: list, clause: str, signature: str, budget: float = 10.0) -> list:
    '''drop chunks of steps (never the last one) while the last step still shows the
    same violation; chunks are halved down to single steps; bounded in wall time'''
    import time

    stop = time.monotonic() + budget
    cur = list(steps)
    n = 2
    while len(cur) > 1 and time.monotonic() < stop:
        body = len(cur) - 1
        n = min(n, body)
        size = -(-body // n)
        for lo in range(0, body, size):
            cand = cur[:lo] + cur[lo + size:]
            if time.monotonic() >= stop:
                break
            if _fails_last(cand, clause, signature):
                cur = cand
                n = max(n - 1, 2)
                break
        else:
            if n >= body:
                break
            n = min(body, n * 2)
    return cur


def _polled_scenario(args):
    '''one process, one chronicle: rounds of appends (append clauses on the files)
    each followed by every query of the bounded space (find clauses) against
    everything recorded so far'''
    name, group, rounds, tier, salt = args
    root = tempfile.mkdtemp(prefix='c18_')
    out = {'cases': 0, 'nontrivial': 0, 'violations': {}, 'sample': None}
    first = {}
    recorded = []
    trace = []  # every step executed so far
    try:
        dawgie.context.data_dbs = root
        _reset_sched()
        for r, specs in enumerate(rounds):
            for spec in specs:
                dawgie.context.data_dbs = root
                problems = _record_one(spec, root, len(recorded))
                recorded.append(spec)
                trace.append({'append': spec})
                out['cases'] += 1
                for clause, sig, _i, observed, expected in problems:
                    key = (clause, 'interleaved-append:' + sig)
                    slot = out['violations'].setdefault(key, {'count': 0})
                    slot['count'] += 1
                    if key not in first:
                        first[key] = (len(trace), None, r, observed, expected)
            for query in _queries(recorded, group, tier, salt + r):
                dawgie.context.data_dbs = root
                problems, nontrivial = _check_find(recorded, query)
                trace.append({'query': _qjson(query)})
                out['cases'] += 1
                out['nontrivial'] += 1 if nontrivial else 0
                if nontrivial and r and out['sample'] is None and query[0] is not None and query[1] is not None:
                    out['sample'] = {'history': name, 'entries': len(recorded), 'after-round': r + 1,
                                     'query': _qjson(query)}
                for clause, sig, observed, expected in problems:
                    key = (clause, 'interleaved-query:' + sig)
                    slot = out['violations'].setdefault(key, {'count': 0})
                    slot['count'] += 1
                    if key not in first:
                        first[key] = (len(trace), query, r, observed, expected)
    finally:
        shutil.rmtree(root, ignore_errors=True)
        _reset_sched()
    for (clause, sig), (upto, query, r, observed, expected) in first.items():
        # smallest explanation first: the same query asked after every earlier round
        steps = None
        if query is not None:
            cand = []
            for specs in rounds[: r + 1]:
                cand += [{'append': s} for s in specs] + [{'query': _qjson(query)}]
            if _fails_last(cand, clause, sig):
                steps = cand
        if steps is None and _fails_last(trace[:upto], clause, sig):
            steps = trace[:upto]
        if steps is not None:
            steps = _shrink_steps(steps, clause, sig)
            again = _fails_last(steps, clause, sig)
            if again:
                observed, expected = again[0][3], again[0][4]
        else:  # not reproducible from a fresh chronicle: keep what was executed
            steps = trace[:upto]
        out['violations'][(clause, sig)].update(
            {'input': {'kind': 'interleaved', 'steps': steps}, 'observed': observed, 'expected': expected}
        )
    out['violations'] = [
        {'clause': c, 'signature': s, **v} for (c, s), v in out['violations'].items()
    ]
    return out


def _dispatch(args):
    return _polled_scenario(args) if args[0].startswith('polled:') else _scenario(args)


def _size(v: dict) -> int:
    return len(v['input'].get('history') or v['input'].get('steps') or [])


def run(tier: str, seed: int) -> dict:
    rng = random.Random(seed)
    scenarios = [(f'fixed:{g}', g, _fixed_history(g), tier, 0) for g in GROUPS]
    scenarios += [(f'interleaved:{g}', g, _interleaved_history(g), tier, 3) for g in INTERLEAVED_GROUPS[tier]]
    for i in range(3 if tier == 'quick' else 95):
        g, h = _seeded_history(rng, i)
        scenarios.append((f'seed{seed}:{i}:{g}', g, h, tier, rng.randrange(10)))
    scenarios += [(f'polled:{g}', g, _polled_rounds(g), tier, 5) for g in POLLED_GROUPS[tier]]
    if tier == 'thorough':
        import multiprocessing

        with multiprocessing.get_context('fork').Pool(min(16, os.cpu_count() or 1)) as pool:
            results = pool.map(_dispatch, scenarios, chunksize=1)
    else:
        results = [_dispatch(s) for s in scenarios]
    merged = {}
    for res in results:
        for v in res['violations']:
            k = (v['clause'], v['signature'])
            if k not in merged:
                merged[k] = dict(v)
            else:
                merged[k]['count'] += v['count']
                if _size(v) < _size(merged[k]):
                    cnt = merged[k]['count']
                    merged[k] = dict(v)
                    merged[k]['count'] = cnt
    polled = [r['sample'] for sc, r in zip(scenarios, results) if r['sample'] and sc[0].startswith('polled:')]
    samples = [r['sample'] for sc, r in zip(scenarios, results) if r['sample'] and not sc[0].startswith('polled:')]
    samples = samples[: 4 - len(polled[:1])] + polled[:1]
    samples.insert(0, {'history': scenarios[0][0], 'entries': scenarios[0][2]})
    return {
        'cases': sum(r['cases'] for r in results),
        'distinct': sum(r['nontrivial'] for r in results),
        'rule': (
            'each history is recorded through the real append/complete (one case per append, files re-read '
            'after each) and then queried with every window/limit/outcome of BOUND (one case per find call); '
            'all queries of a history are pairwise different; a query is non-trivial when the brute-force '
            'window is non-empty; the fixed and the "interleaved" histories (older run id completing after a newer '
            'one inside one day directory, several files per day) do not depend on the seed; the "polled" histories '
            '(seed-independent too) keep ONE chronicle in ONE process and alternate rounds of appends with the whole '
            'query set, each query compared with everything recorded up to then (appends and finds counted the same way)'
        ),
        'exhaustive': False,
        'samples': samples,
        'violations': [merged[k] for k in sorted(merged)],
        'clauses': CLAUSES,
        'histories': len(scenarios),
    }


def replay(case: dict) -> dict:
    case = case.get('input', case)
    if case.get('kind') == 'interleaved':
        steps = case['steps']
        problems = _run_steps(steps)
        problems = [p for p in problems if p[0] == len(steps) - 1] or problems
        if problems:
            return {'reproduced': True, 'clause': problems[0][1], 'signature': problems[0][2],
                    'step': problems[0][0], 'observed': problems[0][3], 'expected': problems[0][4]}
        return {'reproduced': False, 'observed': 'every append added one entry and every find returned the expected entries',
                'expected': 'exactly the brute-force window of what was recorded before each query'}
    history = case['history']
    if case.get('kind') == 'append':
        root = tempfile.mkdtemp(prefix='c18_')
        try:
            dawgie.context.data_dbs = root
            _reset_sched()
            problems, _n = _record_all(history, root)
        finally:
            shutil.rmtree(root, ignore_errors=True)
            _reset_sched()
        problems = [p for p in problems if p[2] == len(history) - 1] or problems
        if problems:
            return {'reproduced': True, 'clause': problems[0][0], 'signature': problems[0][1],
                    'observed': problems[0][3], 'expected': problems[0][4]}
        return {'reproduced': False, 'observed': 'one entry appended, nothing lost',
                'expected': 'one entry appended, nothing lost'}
    problems = _run_case(history, _qparse(case['query']))
    if problems:
        return {'reproduced': True, 'clause': problems[0][0], 'signature': problems[0][1],
                'observed': problems[0][2], 'expected': problems[0][3]}
    return {'reproduced': False, 'observed': 'find returned exactly the expected entries',
            'expected': 'exactly the brute-force window'}
