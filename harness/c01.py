'''C01  Upstream work always finishes before dependent work is released  (bounded run-time harness).

Oracle (written from the property statement, independent of dag.Construct): at every release - the units moved
todo -> doing by schedule.next_job_batch() and the task messages appended by farm._put during one
farm.dispatch() - for the released unit (X, T): no transitive upstream algorithm U of X, computed from the
*declared inputs of the synthetic engine* (Spec.upstream, never node.get('ancestry')), has T or '__all__'
pending (todo) or executing (doing); an all-targets unit (analysis) is released only if every upstream
algorithm has nothing pending or executing.
'''

import time

from . import _sched_sim as X

PROPERTY = 'C01'
BOUND = X.BOUND_TEXT
CLAUSES = ['C01.upstream-idle', 'C01.analysis-upstream-idle']


class Mon(X.Monitor):
    def after(self, sim, ev, rec):
        out = X.common_violations(PROPERTY, rec)
        if ev[0] != 'tick':
            return out
        spec = self.spec
        post = rec['post']['nodes']

        def pend(tag):
            return set(post[tag]['todo']) | set(post[tag]['doing'])

        released = []
        for b in rec['trace']['njb']:
            released.extend(b['released'])
        puts = [(tag, tgt if tgt else X.ALL) for tag, _rid, tgt in rec['trace']['put']]
        for tag, t in sorted(set(released) | set(puts)):
            i = spec.index[tag]
            for uidx in sorted(spec.upstream(i)):
                utag = spec.tags[uidx]
                p = pend(utag)
                if t == X.ALL:
                    if p:
                        out.append(
                            {
                                'clause': 'C01.analysis-upstream-idle',
                                'signature': 'all-targets-unit-released-while-upstream-busy',
                                'observed': {'released': [tag, t], 'upstream': utag,
                                             'upstream_pending_or_executing': sorted(p)},
                                'expected': 'upstream has nothing pending or executing',
                            }
                        )  # fmt: skip
                elif t in p or X.ALL in p:
                    out.append(
                        {
                            'clause': 'C01.upstream-idle',
                            'signature': 'unit-released-while-upstream-%s'
                            % ('all-targets-busy' if X.ALL in p else 'same-target-busy'),
                            'observed': {'released': [tag, t], 'upstream': utag,
                                         'upstream_pending_or_executing': sorted(p)},
                            'expected': 'neither %s nor __all__ pending/executing upstream' % t,
                        }
                    )  # fmt: skip
        return out


def _job(job):
    return X.explore_job(job, Mon)


CFG = {}
WALK_CFG = {'run_all': True, 'timers': True, 'run_empty': True}


def run(tier, seed):
    t0 = time.time()
    deadline = t0 + (14 if tier == 'quick' else 230)
    jobs = X.tier_jobs(tier, seed, deadline, CFG, WALK_CFG)
    return X.run_tier(PROPERTY, tier, seed, jobs, _job, Mon, X.RULE, CLAUSES, t0)


def replay(case):
    return X.generic_replay(case, Mon)
