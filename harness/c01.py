'''C01  Upstream work always finishes before dependent work is released  (bounded run-time harness).

Oracle (written from the property statement, independent of dag.Construct): at every release - the units moved
todo -> doing by schedule.next_job_batch() and the task messages appended by farm._put during one
farm.dispatch() - for the released unit (X, T): no transitive upstream algorithm U of X, computed from the
*declared inputs of the synthetic engine* (Spec.upstream, never node.get('ancestry')), has T or '__all__'
pending (todo) or executing (doing); an all-targets unit (analysis) is released only if every upstream
algorithm has nothing pending or executing.
'''

import time

from . import _sched_sim as X

PROPERTY = 'C01'
BOUND = (
    'real schedule/farm on synthetic engines: quick = 11 curated DAGs (<=4 algorithms, task/analysis mixes) x '
    '{1 target/1 worker, 2 targets/2 workers}, every event sequence of length <= 5 (states merged when the '
    'concrete scheduler+farm state coincides) plus seeded random histories of length 7..12; thorough = every '
    'DAG of <= 4 topologically numbered algorithms x every task/analysis assignment (1098 graphs) x 2 targets '
    'x 2 workers, sequences of length <= 7 under a per-graph transition cap, plus random histories of length 14'
)
CLAUSES = ['C01.upstream-idle', 'C01.analysis-upstream-idle', 'C01.put-matches-release']


class Mon(X.Monitor):
    def after(self, sim, ev, rec):
        out = X.common_violations(PROPERTY, rec)
        if ev[0] != 'tick':
            return out
        spec = self.spec
        post = rec['post']['nodes']

        def pend(tag):
            return set(post[tag]['todo']) | set(post[tag]['doing'])

        released = []
        for b in rec['trace']['njb']:
            released.extend(b['released'])
        puts = [(tag, tgt if tgt else X.ALL) for tag, _rid, tgt in rec['trace']['put']]
        for tag, t in sorted(set(released) | set(puts)):
            i = spec.index[tag]
            for uidx in sorted(spec.upstream(i)):
                utag = spec.tags[uidx]
                p = pend(utag)
                if t == X.ALL:
                    if p:
                        out.append(
                            {
                                'clause': 'C01.analysis-upstream-idle',
                                'signature': 'all-targets-unit-released-while-upstream-busy',
                                'observed': {'released': [tag, t], 'upstream': utag,
                                             'upstream_pending_or_executing': sorted(p)},
                                'expected': 'upstream has nothing pending or executing',
                            }
                        )  # fmt: skip
                elif t in p or X.ALL in p:
                    out.append(
                        {
                            'clause': 'C01.upstream-idle',
                            'signature': 'unit-released-while-upstream-%s'
                            % ('all-targets-busy' if X.ALL in p else 'same-target-busy'),
                            'observed': {'released': [tag, t], 'upstream': utag,
                                         'upstream_pending_or_executing': sorted(p)},
                            'expected': 'neither %s nor __all__ pending/executing upstream' % t,
                        }
                    )  # fmt: skip
        # the two observation points must agree: what was put is what was released (as units)
        if sorted(set(puts)) != sorted(set(released)) and not rec.get('exception'):
            out.append(
                {
                    'clause': 'C01.put-matches-release',
                    'signature': 'task-messages-differ-from-released-units',
                    'observed': {'released': sorted(released), 'put': sorted(puts)},
                    'expected': 'farm._put called for exactly the released units',
                }
            )
        return out


def _job(job):
    return X.explore_job(job, Mon)


def _jobs(tier, seed, deadline):
    jobs = []
    cfg = {'run_all': False, 'timers': False}
    wcfg = {'run_all': True, 'timers': True, 'run_empty': True}
    if tier == 'quick':
        for k, spec in enumerate(X.curated_specs()):
            for targets, workers in ((['T1'], 1), (['T1', 'T2'], 2)):
                u = X.Universe(spec, targets, workers)
                jobs.append(
                    {
                        'universe': u.to_json(), 'cfg': cfg, 'walk_cfg': wcfg,
                        'depth': 5, 'cap': 420 if len(targets) == 1 else 900,
                        'walks': 6, 'walk_len': 7 + (k % 6), 'seed': seed,
                        'deadline': deadline, 'sample': k in (1, 5) and workers == 2,
                    }
                )  # fmt: skip
    else:
        specs = X.all_specs(4)
        for k, spec in enumerate(specs):
            u = X.Universe(spec, ['T1', 'T2'], 2, init=())
            jobs.append(
                {
                    'universe': u.to_json(), 'cfg': cfg, 'walk_cfg': wcfg,
                    'depth': 7, 'cap': 2500, 'walks': 12, 'walk_len': 14, 'seed': seed,
                    'deadline': deadline, 'sample': k in (40, 700),
                }
            )  # fmt: skip
        for k, spec in enumerate(X.curated_specs()):
            for targets, workers, init in ((['T1'], 1, ()), (['T1', 'T2'], 3, (0,)), (['T1', 'T2'], 1, ())):
                u = X.Universe(spec, targets, workers, init)
                jobs.append(
                    {
                        'universe': u.to_json(), 'cfg': dict(cfg, timers=True), 'walk_cfg': wcfg,
                        'depth': 7, 'cap': 6000, 'walks': 20, 'walk_len': 16, 'seed': seed,
                        'deadline': deadline,
                    }
                )  # fmt: skip
    return jobs


def run(tier, seed):
    t0 = time.time()
    deadline = t0 + (14 if tier == 'quick' else 240)
    jobs = _jobs(tier, seed, deadline)
    parts = X.run_parallel(_job, jobs, 1 if tier == 'quick' else 16)
    res = X.Result()
    for p in parts:
        res.merge(p)
    out = X.finish(
        PROPERTY, res, Mon,
        rule='a case is one event applied to the real schedule/farm code; BFS over event sequences (run request '
        'per algorithm and target, dispatch tick, reply of any in-flight unit with success{},{p},{q},{p,q} / '
        'failure / invalid) merging equal concrete states, then seeded random histories that also use timer '
        'events, all-target and empty requests; distinct = distinct (state, event) pairs; non-trivial = the '
        'event is enabled in a state reached on the real code',
        exhaustive=False, clauses=CLAUSES,
    )  # fmt: skip
    out['wall_s'] = round(time.time() - t0, 2)
    out['universes'] = len(jobs)
    return out


def replay(case):
    return X.generic_replay(case, Mon)
