'''Bounded run-time harness for C20 (timer events).

Real code driven: dawgie.pl.schedule._delay / defer / periodics / complete /
next_job_batch with an injected clock (dawgie.pl.schedule.datetime replaced by a
module-like object whose datetime.now() is controllable), a recording
replacement of twisted.internet.reactor.callLater and a fake dawgie.db.targets.

The oracle is a brute-force calendar computation written from the property
statement: the moments of a specification are enumerated day by day (weekday and
time of day; day of month clamped to the length of the month; the date).
'''

import calendar
import datetime as _dt
import logging
import os
import random
import sys
import types

PROPERTY = 'C20'
BOUND = (
    'delay: every dow 0..6, every dom 1..31, 5 one-off dates (each x 4 times of day) and boot, evaluated at clock '
    'instants of 2023-12-25 .. 2028-03-05: hourly, {-1 s, -1 us, 0, +1 s} around every midnight and {-1 s, 0, +1 s} '
    'around every specified time of day (thorough: all ~50000 instants, exhaustive; quick: a thinned set of these on '
    'the first and last day of every month plus 40 seeded days, ~2100 instants); due: periodics()+defer() called at '
    'offsets {-301,-300,-299,-60,-1,0} s from moments of every dow / dom / date specification at 2 times of day '
    '(first moment, for dom the February and April moments, plus one seeded moment) x {task, analysis} x 2 target '
    'sets; boot: defer driven 7 times over 3 days, with and without the node status put back to delayed; '
    'recurrence: periodics/defer/next_job_batch/complete driven by the recorded timers for 10 weeks (weekly) / '
    '5 months (monthly) of simulated time: 7 fixed 1-3 node scenarios (+ every dow x 2 times and 7 dom values '
    'thorough) plus 5 (quick) / 120 (thorough) seeded scenarios; late: the same specifications (first moment; '
    'thorough: every picked moment) first seen by defer() {301, 3600} s AFTER the moment (same calendar day), either '
    'because periodics()+defer() are called late or because schedule.pause() was in force from one hour before the '
    'moment (timer armed, polls while paused) until unpause() at that offset; boot+view: a boot event (alone or '
    'with a weekly event on the node) x {task, analysis} x {1, 2} calls of schedule.view_events() while the '
    'pipeline is paused before defer() has handled the event, then unpause()'
)

REPO = os.environ.get('VERIF_REPO', '/repo')

import dawgie  # noqa: E402

assert dawgie.__file__.startswith(REPO + '/Python/'), dawgie.__file__

import dawgie.context  # noqa: E402
import dawgie.db  # noqa: E402
import dawgie.pl.dag  # noqa: E402
import dawgie.pl.logger.chronicle  # noqa: E402
import dawgie.pl.schedule as schedule  # noqa: E402
import dawgie.tools.compliant  # noqa: E402
import dawgie.util.fifo  # noqa: E402
import twisted.internet.reactor  # noqa: E402
from dawgie.pl.jobinfo import State  # noqa: E402

logging.disable(logging.CRITICAL)

UTC = _dt.timezone.utc
CLAUSES = ['C20.computable', 'C20.match', 'C20.near', 'C20.due', 'C20.due.late', 'C20.boot', 'C20.boot.viewed',
           'C20.recurs']
LATE_OFFSETS = (301, 3600)  # seconds after the moment, same calendar day for every time of day used in part 2
SPAN = (_dt.date(2023, 12, 25), _dt.date(2028, 3, 5))
TIMES = [_dt.time(0, 0, 0), _dt.time(6, 30, 15), _dt.time(12, 0, 0), _dt.time(23, 59, 59)]
DATES = ['2020-01-01', '2023-12-31', '2024-02-29', '2026-01-01', '2028-03-05']
FIRE_WINDOW = 300.0

# ---------------------------------------------------------------- fakes
_NOW = [_dt.datetime(2024, 1, 1, tzinfo=UTC)]
_REAL_DT = _dt.datetime


class _Meta(type):
    def __instancecheck__(cls, inst):
        return isinstance(inst, _REAL_DT)


class _FakeDT(_REAL_DT, metaclass=_Meta):
    @classmethod
    def now(cls, tz=None):
        return _NOW[0] if tz is not None else _NOW[0].replace(tzinfo=None)


class _FakeModule:
    '''stands in for the module `datetime` inside dawgie.pl.schedule'''

    datetime = _FakeDT

    def __getattr__(self, name):
        return getattr(_dt, name)


class _World:
    def __init__(self):
        self.timers = []  # [due, seq, fn, args]
        self.pending = []  # [due, seq, job, target]
        self.firings = []  # (time, tag, targets)
        self.history = []  # (time, what)
        self.errors = []
        self.seq = 0

    def note(self, what):
        self.history.append([_NOW[0].isoformat(), what])


_WORLD = [_World()]
_TARGETS = [['a', 'b', 'c']]


def _call_later(seconds, fn, *args, **_kw):
    w = _WORLD[0]
    w.seq += 1
    w.timers.append([_NOW[0] + _dt.timedelta(seconds=seconds), w.seq, fn, args])
    w.note(f'timer armed for +{seconds} s')
    return None


_REAL_DEFER = schedule.defer


def _defer_recorded():
    try:
        return _REAL_DEFER()
    except BaseException as e:  # pylint: disable=broad-exception-caught
        _WORLD[0].errors.append(repr(e))
        _WORLD[0].note('defer raised ' + repr(e))
        raise


schedule.datetime = _FakeModule()
schedule.defer = _defer_recorded
twisted.internet.reactor.callLater = _call_later
dawgie.db.targets = lambda fulllist=False: list(_TARGETS[0])
dawgie.pl.logger.chronicle.append = lambda entry: None
dawgie.context.allow_promotion = False
dawgie.context.ae_base_package = 'aefake'
dawgie.context.git_rev = 'deadbeef'


def task(_name=None):
    return None


def analysis(_name=None):
    return None


class _Impl:
    def __init__(self, name):
        self._name = name

    def name(self):
        return self._name

    def asstring(self):
        return '1.0.0'


def _factory(kind: str, pkg: str):
    fn = types.FunctionType((task if kind == 'task' else analysis).__code__, globals(), kind)
    fn.__module__ = 'aefake.' + pkg
    return fn


# ---------------------------------------------------------------- specification oracle
def _time(s: str) -> _dt.time:
    return _dt.time.fromisoformat(s)


def _event(spec: dict, factory=None, impl=None):
    kind = spec['kind']
    if kind == 'boot':
        return dawgie.schedule(factory, impl, boot=True)
    kw = {'time': _time(spec['time'])}
    kw[kind] = _dt.date.fromisoformat(spec['value']) if kind == 'day' else spec['value']
    return dawgie.schedule(factory, impl, **kw)


def _matches(spec: dict, day: _dt.date) -> bool:
    '''does the calendar day carry a moment of the specification (from the property statement)'''
    if spec['kind'] == 'dow':
        return day.weekday() == spec['value']
    if spec['kind'] == 'dom':
        return day.day == min(spec['value'], calendar.monthrange(day.year, day.month)[1])
    return day == _dt.date.fromisoformat(spec['value'])


def _moments(spec: dict, start: _dt.datetime, end: _dt.datetime) -> list:
    '''every moment of the specification in [start, end], enumerated day by day'''
    out = []
    day = start.date() - _dt.timedelta(days=1)
    tod = _time(spec['time'])
    while day <= end.date():
        if _matches(spec, day):
            m = _dt.datetime.combine(day, tod, tzinfo=UTC)
            if start <= m <= end:
                out.append(m)
        day += _dt.timedelta(days=1)
    return out


def _all_specs() -> list:
    specs = []
    for t in TIMES:
        for v in range(7):
            specs.append({'kind': 'dow', 'value': v, 'time': t.isoformat()})
        for v in range(1, 32):
            specs.append({'kind': 'dom', 'value': v, 'time': t.isoformat()})
        for v in DATES:
            specs.append({'kind': 'day', 'value': v, 'time': t.isoformat()})
    return specs


def _accepted_by_compliance(specs: list) -> bool:
    '''the domain of the property: specifications that tools.compliant.rule_10 accepts'''
    mod = types.ModuleType('c20_fake_events')
    mod.events = lambda: [_event(s) for s in specs] + [_event({'kind': 'boot'})]
    sys.modules['c20_fake_events'] = mod
    try:
        return bool(dawgie.tools.compliant.rule_10('c20_fake_events'))
    finally:
        del sys.modules['c20_fake_events']


# ---------------------------------------------------------------- part 1: _delay
def _instants(tier: str, rng: random.Random) -> list:
    pts = set()
    day = SPAN[0]
    special = []
    for t in TIMES:
        base = _dt.datetime.combine(_dt.date(2000, 1, 1), t)
        special += [(base + _dt.timedelta(seconds=d)).time() for d in (-1, 0, 1)]
    days = []
    while day <= SPAN[1]:
        days.append(day)
        day += _dt.timedelta(days=1)
    if tier == 'quick':
        edge = [d for d in days if d.day == 1 or (d + _dt.timedelta(days=1)).day == 1]
        edges = set(edge)
        rest = [d for d in days if d not in edges]
        chosen = [(d, True) for d in edge]
        sampled = [(d, False) for d in rng.sample(rest, 40)]
    else:
        chosen, sampled = [(d, True) for d in days], []
    for d, _full in chosen + sampled:
        mid = _dt.datetime.combine(d, _dt.time(0), tzinfo=UTC)
        hours = range(24) if tier != 'quick' else (1, 5, 11, 18, 22)
        for h in hours:
            pts.add(mid + _dt.timedelta(hours=h))
        pts.update([mid - _dt.timedelta(seconds=1), mid - _dt.timedelta(microseconds=1), mid,
                    mid + _dt.timedelta(seconds=1)])
        for t in special if tier != 'quick' else special[3:9]:
            pts.add(_dt.datetime.combine(d, t, tzinfo=UTC))
    lo = _dt.datetime.combine(SPAN[0], _dt.time(0), tzinfo=UTC)
    hi = _dt.datetime.combine(SPAN[1], _dt.time(23, 59, 59), tzinfo=UTC)
    return sorted(p for p in pts if lo <= p <= hi)


def _check_delay(spec: dict, event, now: _dt.datetime) -> list:
    '''one execution of the real _delay; returns [(clause, what, observed, expected)]'''
    _NOW[0] = now
    try:
        d = schedule._delay(event)  # pylint: disable=protected-access
    except schedule._DelayNotKnowableError as e:  # pylint: disable=protected-access
        return [('C20.computable', 'raises-not-knowable', repr(e), 'a delay (only a boot event already fired may raise)')]
    except Exception as e:  # pylint: disable=broad-exception-caught
        return [('C20.computable', 'raises-' + type(e).__name__, repr(e), 'a delay')]
    if not isinstance(d, _dt.timedelta):
        return [('C20.computable', 'not-a-timedelta', repr(d), 'a datetime.timedelta')]
    m = now + d
    out = []
    if not _matches(spec, m.date()):
        out.append(('C20.match', 'wrong-day', {'delay_s': d.total_seconds(), 'moment': m.isoformat()},
                    'a day matching ' + _spec_str(spec)))
    elif m.time() != _time(spec['time']) :
        out.append(('C20.match', 'wrong-time', {'delay_s': d.total_seconds(), 'moment': m.isoformat()},
                    'time of day ' + spec['time']))
    limit = {'dow': 7, 'dom': 31}.get(spec['kind'])
    if limit is not None and d > _dt.timedelta(days=limit):
        out.append(('C20.near', 'too-far', {'delay_s': d.total_seconds(), 'moment': m.isoformat()},
                    f'at most {limit} days ahead'))
    return out


def _spec_str(spec: dict) -> str:
    return 'boot' if spec['kind'] == 'boot' else f'{spec["kind"]}={spec["value"]} at {spec["time"]}'


def _delay_chunk(args):
    instants, specs = args
    events = [(s, _event(s)) for s in specs]
    out = {'cases': 0, 'past': 0, 'past_example': None, 'violations': {}}
    for now in instants:
        for spec, ev in events:
            out['cases'] += 1
            problems = _check_delay(spec, ev, now)
            for clause, what, observed, expected in problems:
                sig = f'{spec["kind"]}:{what}'
                slot = out['violations'].setdefault((clause, sig), {'count': 0})
                slot['count'] += 1
                if 'input' not in slot:
                    slot.update({'input': {'kind': 'delay', 'spec': spec, 'now': now.isoformat()},
                                 'observed': observed, 'expected': expected})
    return out


def _boot_delay(out):
    '''_delay on boot events: 0 the first time, only _DelayNotKnowableError afterwards'''
    schedule.booted.clear()
    ev = _event({'kind': 'boot'}, 'f', 'i')
    other = _event({'kind': 'boot'}, 'f', 'j')
    for i, (e, expect_raise) in enumerate([(ev, False), (other, False), (ev, True), (ev, True), (other, True)]):
        _NOW[0] = _dt.datetime(2024, 2, 29, 23, 59, 59, tzinfo=UTC) + _dt.timedelta(hours=i)
        out['cases'] += 1
        try:
            d = schedule._delay(e)  # pylint: disable=protected-access
            res = d.total_seconds()
        except schedule._DelayNotKnowableError:  # pylint: disable=protected-access
            res = 'not-knowable'
        except Exception as x:  # pylint: disable=broad-exception-caught
            res = repr(x)
        case = {'kind': 'boot-delay', 'call': i}
        if not expect_raise and res != 0.0:
            _add(out, 'C20.computable' if isinstance(res, str) else 'C20.match', 'boot:first-call', case, res, 0.0)
        if expect_raise and isinstance(res, str) and res != 'not-knowable':
            _add(out, 'C20.computable', 'boot:raises-other', case, res, 'a delay or _DelayNotKnowableError')
    schedule.booted.clear()


# ---------------------------------------------------------------- part 2: defer on a small pipeline
def _setup(nodes: list, targets: list, t0: _dt.datetime, paused: bool = False) -> dict:
    '''nodes: [{'tag': 'wk.engine', 'factory': 'task'|'analysis', 'events': [spec, ...]}]; runs the real periodics()'''
    _WORLD[0] = _World()
    _TARGETS[0] = list(targets)
    _NOW[0] = t0
    schedule.que.clear()
    schedule.per.clear()
    schedule.booted.clear()
    schedule.err.clear()
    schedule.suc.clear()
    schedule.pipeline_paused = False
    if paused:
        schedule.pause()
    root = dawgie.pl.dag.Node('root.root')
    made = {}
    events = []
    for lvl, n in enumerate(nodes):
        pkg, alg = n['tag'].split('.')
        fac = _factory(n['factory'], pkg)
        impl = _Impl(alg)
        node = dawgie.pl.dag.Node(n['tag'])
        for k, v in (('factory', fac), ('alg', impl), ('do', set()), ('doing', set()),
                     ('todo', dawgie.util.fifo.Unique()), ('status', State.initial), ('level', lvl),
                     ('ancestry', set()), ('feedback', set())):
            node.set(k, v)
        root.append(node)
        made[n['tag']] = node
        events += [_event(s, fac, impl) for s in n['events']]
    schedule.ae = types.SimpleNamespace(at=[root])
    schedule.promote.ae = schedule.ae
    schedule.promote.organize = schedule.organize
    try:
        schedule.periodics([lambda: events])
    except BaseException:  # recorded by _defer_recorded; pylint: disable=broad-exception-caught
        pass
    return made


def _expected_todo(n: dict, targets: list) -> set:
    return {'__all__'} if n['factory'] == 'analysis' else set(targets)


def _due_case(n: dict, targets: list, now: _dt.datetime) -> list:
    '''periodics()+defer() at `now` for one node; the caller knows a moment lies within the firing window'''
    made = _setup([n], targets, now)
    node = made[n['tag']]
    want = _expected_todo(n, targets)
    w = _WORLD[0]
    if w.errors:
        return [('C20.computable', 'defer-raises', w.errors[0], 'no exception')]
    queued = node in schedule.que
    todo = set(node.get('todo'))
    if want and not (queued and want <= todo):
        return [('C20.due', 'due-not-queued' if not queued else 'due-wrong-todo',
                 {'queued': queued, 'todo': sorted(todo), 'status': node.get('status').name,
                  'timers': [round((t[0] - now).total_seconds()) for t in w.timers]},
                 {'queued': True, 'todo': sorted(want)})]
    return []


def _fire_timers(until: _dt.datetime, limit: int) -> int:
    '''fire recorded timers that are due by `until` in order (at most `limit`), moving the clock with them'''
    w = _WORLD[0]
    fired = 0
    while fired < limit:
        due = sorted((x for x in w.timers if x[0] <= until), key=lambda x: x[:2])
        if not due:
            break
        timer = due[0]
        w.timers.remove(timer)
        _NOW[0] = max(_NOW[0], timer[0])
        w.note('timer fires -> defer()')
        try:
            timer[2](*timer[3])
        except BaseException:  # recorded by _defer_recorded; pylint: disable=broad-exception-caught
            pass
        fired += 1
    return fired


def _resume_at(when: _dt.datetime):
    '''the pipeline is paused and polls every 10 s: let up to 3 polls happen, jump to `when` (the polls in between
    only re-arm themselves), unpause() and let the pending poll fire'''
    _fire_timers(when, 3)
    _NOW[0] = max(_NOW[0], when)
    schedule.unpause()
    _fire_timers(when + _dt.timedelta(seconds=11), 2)


def _late_case(n: dict, targets: list, m: _dt.datetime, off: int, mode: str) -> list:
    '''the moment m passed `off` s ago (same day) when defer() first gets to handle the event: it is due'''
    now = m + _dt.timedelta(seconds=off)
    if mode == 'late-call':
        made = _setup([n], targets, now)
    else:  # 'paused': timer armed one hour ahead, pause across the moment, unpause late
        made = _setup([n], targets, m - _dt.timedelta(seconds=3600))
        if made[n['tag']] in schedule.que:
            return []  # already queued an hour early: nothing to say here
        schedule.pause()
        _resume_at(now)
    node = made[n['tag']]
    want = _expected_todo(n, targets)
    w = _WORLD[0]
    if w.errors:
        return [('C20.computable', 'defer-raises', w.errors[0], 'no exception')]
    queued = node in schedule.que
    todo = set(node.get('todo'))
    if want and not (queued and want <= todo):
        return [('C20.due.late', 'late-not-queued' if not queued else 'late-wrong-todo',
                 {'queued': queued, 'todo': sorted(todo), 'status': node.get('status').name,
                  'seconds_after_moment': off,
                  'timers': [round((t[0] - _NOW[0]).total_seconds()) for t in w.timers],
                  'history': w.history[-6:]},
                 {'queued': True, 'todo': sorted(want)})]
    return []


def _due_cases(tier: str, rng: random.Random):
    specs = [s for s in _all_specs() if s['time'] in (TIMES[1].isoformat(), TIMES[0].isoformat())]
    lo = _dt.datetime(2023, 12, 25, tzinfo=UTC)
    hi = _dt.datetime(2025, 3, 5, tzinfo=UTC)
    k = 0
    late = 0
    for spec in specs:
        moments = _moments(spec, lo, hi)
        if not moments:
            continue
        if spec['kind'] == 'dom':  # always include the end of a short month and a normal one
            picks = [m for m in moments if m.month == 2][:1] + [m for m in moments if m.month == 4][:1]
            picks += [rng.choice(moments)]
        else:
            picks = moments[:1] + [rng.choice(moments)]
        if tier == 'quick':
            picks = picks[:2]
        for m in picks:
            for off in (-301, -300, -299, -60, -1, 0):
                k += 1
                fac = 'analysis' if k % 3 == 0 else 'task'
                targets = ['a', 'b', 'c'] if k % 2 else ['x']
                yield spec, fac, targets, m, off, 'on-time'
        for i, m in enumerate(picks):
            if tier == 'quick' and i:
                break
            for off in LATE_OFFSETS:
                for mode in ('late-call', 'paused'):
                    late += 1
                    fac = 'analysis' if late % 3 == 0 else 'task'
                    targets = ['a', 'b', 'c'] if late % 2 else ['x']
                    yield spec, fac, targets, m, off, mode


def _dispatch(latency: float):
    '''what dawgie.pl.farm.dispatch does with the scheduler: take the batch, mark running, hand out the targets'''
    w = _WORLD[0]
    for job in schedule.next_job_batch():
        job.set('status', State.running)
        targets = sorted(job.get('do'))
        job.get('do').clear()
        w.firings.append((_NOW[0], job.tag, targets))
        w.note(f'dispatch {job.tag} {targets}')
        for t in targets:
            w.seq += 1
            w.pending.append([_NOW[0] + _dt.timedelta(seconds=latency), w.seq, job, t])


def _simulate(scn: dict) -> dict:
    '''drive periodics/defer/next_job_batch/complete by the recorded timers until the horizon'''
    t0 = _dt.datetime.fromisoformat(scn['t0'])
    horizon = t0 + _dt.timedelta(days=scn['days'])
    made = _setup(scn['nodes'], scn['targets'], t0)
    w = _WORLD[0]
    w.note('periodics() called')
    steps = 0
    while steps < 20000:
        steps += 1
        _dispatch(scn['latency'])
        nxt = min([x[:2] for x in w.timers] + [x[:2] for x in w.pending], default=None)
        if nxt is None or nxt[0] > horizon:
            break
        _NOW[0] = max(_NOW[0], nxt[0])
        timer = next((x for x in w.timers if x[:2] == nxt), None)
        if timer is not None:
            w.timers.remove(timer)
            w.note('timer fires -> defer()')
            try:
                timer[2](*timer[3])
            except BaseException:  # pylint: disable=broad-exception-caught
                pass
        else:
            item = next(x for x in w.pending if x[:2] == nxt)
            w.pending.remove(item)
            _due, _seq, job, target = item
            w.note(f'complete {job.tag} {target}')
            try:
                schedule.complete(job, 1, target, {'started': _NOW[0]}, State.success)
            except BaseException as e:  # pylint: disable=broad-exception-caught
                w.errors.append(repr(e))
                w.note('complete raised ' + repr(e))
    end = {tag: {'status': node.get('status').name, 'in_que': node in schedule.que} for tag, node in made.items()}
    return {'t0': t0, 'horizon': horizon, 'firings': list(w.firings), 'history': list(w.history),
            'errors': list(w.errors), 'timers_left': len(w.timers), 'end': end}


def _check_recurs(scn: dict, sim: dict) -> list:
    '''every period of every weekly/monthly event must contain a firing of its node; boot fires exactly once'''
    problems = []
    slack = _dt.timedelta(seconds=FIRE_WINDOW)
    for n in scn['nodes']:
        fired = [t for t, tag, _ in sim['firings'] if tag == n['tag']]
        want = _expected_todo(n, scn['targets'])
        for t, tag, targets in sim['firings']:
            if tag == n['tag'] and want and not want <= set(targets):
                problems.append(('C20.due', 'fired-without-all-targets', {'at': t.isoformat(), 'targets': targets},
                                 sorted(want)))
        periodic = [s for s in n['events'] if s['kind'] in ('dow', 'dom')]
        if not periodic and any(s['kind'] == 'boot' for s in n['events']):
            only_boot = all(s['kind'] == 'boot' for s in n['events'])
            if want and not fired:
                problems.append(('C20.boot', 'boot-never-fired', {'firings': 0}, 'one firing at start-up'))
            if only_boot and len(fired) > 1:
                problems.append(('C20.boot', 'boot-fired-again', {'firings': [t.isoformat() for t in fired]},
                                 'exactly one firing per process'))
        for spec in periodic:
            if not want:
                continue
            moments = _moments(spec, sim['t0'], sim['horizon'])
            missed = []
            hit = []
            for k, m in enumerate(moments[:-1]):
                lo, hi = m - slack, moments[k + 1] - slack
                (hit if any(lo <= t < hi for t in fired) else missed).append(m)
            if not missed:
                continue
            if not fired:
                sig = 'periodic-never-fired'
            elif all(m > max(fired) for m in missed):  # nothing at all after the node's last firing
                sig = 'periodic-never-rearmed' if not sim['timers_left'] else 'periodic-stops-with-timer-pending'
            else:
                sig = 'period-skipped'
            problems.append(
                ('C20.recurs', sig,
                 {'event': _spec_str(spec), 'node': n['tag'],
                  'fired_at': [t.isoformat() for t in fired][:12],
                  'periods_without_firing': [m.isoformat() for m in missed][:12],
                  'periods_checked': len(moments) - 1,
                  'timers_pending_at_end': sim['timers_left'], 'node_at_end': sim['end'][n['tag']],
                  'errors': sim['errors'][:2], 'history': sim['history'][:14]},
                 f'a firing of {n["tag"]} in each period [moment - 300 s, next moment - 300 s)')
            )
    if sim['errors'] and not problems:
        problems.append(('C20.computable', 'defer-or-complete-raises', sim['errors'][:2], 'no exception'))
    return problems


def _weekly(t0: _dt.datetime, days_ahead: int, secs: int) -> dict:
    m = t0 + _dt.timedelta(days=days_ahead, seconds=secs)
    return {'kind': 'dow', 'value': m.weekday(), 'time': m.time().replace(microsecond=0).isoformat()}


def _scenarios(tier: str, rng: random.Random) -> list:
    t0 = _dt.datetime(2023, 12, 25, 8, 0, 0, tzinfo=UTC)
    wk = 70
    mo = 155
    scns = [
        {'name': 'weekly-today+1h', 't0': t0.isoformat(), 'days': wk, 'latency': 60, 'targets': ['a', 'b', 'c'],
         'nodes': [{'tag': 'wk.engine', 'factory': 'task', 'events': [_weekly(t0, 0, 3600)]}]},
        {'name': 'weekly-in-3-days', 't0': t0.isoformat(), 'days': wk, 'latency': 7200, 'targets': ['x'],
         'nodes': [{'tag': 'wk.engine', 'factory': 'task', 'events': [_weekly(t0, 3, -7200)]}]},
        {'name': 'monthly-31', 't0': t0.isoformat(), 'days': mo, 'latency': 60, 'targets': ['a', 'b'],
         'nodes': [{'tag': 'mo.engine', 'factory': 'task',
                    'events': [{'kind': 'dom', 'value': 31, 'time': '06:30:15'}]}]},
        {'name': 'monthly-15-analysis', 't0': t0.isoformat(), 'days': mo, 'latency': 60, 'targets': ['a'],
         'nodes': [{'tag': 'mo.analyzer', 'factory': 'analysis',
                    'events': [{'kind': 'dom', 'value': 15, 'time': '00:00:00'}]}]},
        {'name': 'two-weeklies-and-analysis', 't0': t0.isoformat(), 'days': wk, 'latency': 60,
         'targets': ['a', 'b', 'c'],
         'nodes': [{'tag': 'wk.engine', 'factory': 'task', 'events': [_weekly(t0, 1, 0)]},
                   {'tag': 'tu.engine', 'factory': 'task', 'events': [_weekly(t0, 2, 100)]},
                   {'tag': 'fr.analyzer', 'factory': 'analysis', 'events': [_weekly(t0, 4, 5)]}]},
        {'name': 'one-node-two-weeklies', 't0': t0.isoformat(), 'days': wk, 'latency': 60, 'targets': ['a'],
         'nodes': [{'tag': 'wk.engine', 'factory': 'task', 'events': [_weekly(t0, 1, 0), _weekly(t0, 4, 0)]}]},
        {'name': 'boot-only-and-weekly', 't0': t0.isoformat(), 'days': wk, 'latency': 60, 'targets': ['a', 'b'],
         'nodes': [{'tag': 'bt.engine', 'factory': 'task', 'events': [{'kind': 'boot'}]},
                   {'tag': 'wk.engine', 'factory': 'task', 'events': [_weekly(t0, 2, 0)]}]},
    ]
    extra = 5 if tier == 'quick' else 120
    if tier != 'quick':
        for dow in range(7):
            for t in (TIMES[0], TIMES[3]):
                scns.append({'name': f'weekly-{dow}-{t}', 't0': t0.isoformat(), 'days': wk, 'latency': 60,
                             'targets': ['a'], 'nodes': [{'tag': 'wk.engine', 'factory': 'task', 'events': [
                                 {'kind': 'dow', 'value': dow, 'time': t.isoformat()}]}]})
        for dom in (1, 15, 25, 28, 29, 30, 31):
            scns.append({'name': f'monthly-{dom}', 't0': t0.isoformat(), 'days': mo, 'latency': 60,
                         'targets': ['a'], 'nodes': [{'tag': 'mo.engine', 'factory': 'task', 'events': [
                             {'kind': 'dom', 'value': dom, 'time': '12:00:00'}]}]})
    for i in range(extra):
        start = _dt.datetime(2023, 12, 25, tzinfo=UTC) + _dt.timedelta(
            days=rng.randrange(0, 1300), seconds=rng.randrange(86400))
        nodes = []
        monthly = rng.random() < 0.4
        for j in range(rng.randint(1, 3)):
            evs = []
            for _ in range(rng.randint(1, 2)):
                if monthly:
                    evs.append({'kind': 'dom', 'value': rng.randint(1, 31), 'time': rng.choice(TIMES).isoformat()})
                else:
                    evs.append({'kind': 'dow', 'value': rng.randrange(7), 'time': rng.choice(TIMES).isoformat()})
            nodes.append({'tag': f'p{j}.alg', 'factory': rng.choice(['task', 'task', 'analysis']), 'events': evs})
        scns.append({'name': f'seeded-{i}', 't0': start.isoformat(), 'days': mo if monthly else wk,
                     'latency': rng.choice([60, 7200]), 'targets': rng.choice([['a'], ['a', 'b', 'c']]),
                     'nodes': nodes})
    return scns


def _boot_defer(out):
    '''a boot event fires once per process, however often defer() runs and whatever the node status is'''
    for fac, reset in (('task', False), ('analysis', False), ('task', True), ('analysis', True)):
        n = {'tag': 'bt.engine', 'factory': fac, 'events': [{'kind': 'boot'}]}
        t0 = _dt.datetime(2024, 2, 28, 22, 0, tzinfo=UTC)
        made = _setup([n], ['a', 'b'], t0)
        node = made[n['tag']]
        case = {'kind': 'boot-defer', 'factory': fac, 'status_reset_to_delayed_after_completion': reset}
        out['cases'] += 1
        want = _expected_todo(n, ['a', 'b'])
        if not (node in schedule.que and want <= set(node.get('todo'))):
            _add(out, 'C20.boot', 'boot-not-queued-at-start', case,
                 {'queued': node in schedule.que, 'todo': sorted(node.get('todo'))}, {'todo': sorted(want)})
            continue
        fired = 1
        _dispatch(60)
        for item in list(_WORLD[0].pending):
            schedule.complete(item[2], 1, item[3], {'started': _NOW[0]}, State.success)
        _WORLD[0].pending.clear()
        for i in range(1, 7):
            _NOW[0] = t0 + _dt.timedelta(hours=12 * i)
            if reset:
                node.set('status', State.delayed)
            out['cases'] += 1
            try:
                schedule.defer()
            except BaseException as e:  # pylint: disable=broad-exception-caught
                _add(out, 'C20.computable', 'defer-raises:boot', case, repr(e), 'no exception')
                break
            if node in schedule.que and node.get('todo'):
                fired += 1
                _dispatch(60)
                for item in list(_WORLD[0].pending):
                    schedule.complete(item[2], 1, item[3], {'started': _NOW[0]}, State.success)
                _WORLD[0].pending.clear()
        if fired != 1:
            _add(out, 'C20.boot', 'boot-fired-again', case, {'firings': fired}, {'firings': 1})


def _boot_viewed(out, only=None):
    '''looking at the events (schedule.view_events, the /api/schedule/events endpoint) before defer() has handled
    a boot event must not make the boot event disappear: it still fires once the pipeline is unpaused'''
    t0 = _dt.datetime(2024, 2, 28, 22, 0, tzinfo=UTC)
    for fac in ('task', 'analysis'):
        for views in (1, 2):
            for with_weekly in (False, True):
                case = {'kind': 'boot-viewed', 'factory': fac, 'view_events_calls': views,
                        'with_weekly_event': with_weekly}
                if only is not None and only != case:
                    continue
                evs = [{'kind': 'boot'}] + ([_weekly(t0, 3, 0)] if with_weekly else [])
                n = {'tag': 'bt.engine', 'factory': fac, 'events': evs}
                made = _setup([n], ['a', 'b'], t0, paused=True)
                node = made[n['tag']]
                out['cases'] += 1
                seen = []
                for _ in range(views):
                    try:
                        seen.append(schedule.view_events())
                    except Exception as e:  # pylint: disable=broad-exception-caught
                        seen.append(repr(e))
                _resume_at(t0 + _dt.timedelta(seconds=60))
                want = _expected_todo(n, ['a', 'b'])
                if _WORLD[0].errors:
                    _add(out, 'C20.computable', 'defer-raises:boot-viewed', case, _WORLD[0].errors[0], 'no exception')
                elif not (node in schedule.que and want <= set(node.get('todo'))):
                    _add(out, 'C20.boot.viewed', 'boot-lost-after-view_events', case,
                         {'queued': node in schedule.que, 'todo': sorted(node.get('todo')), 'view_events': seen,
                          'history': _WORLD[0].history[-6:]},
                         {'queued': True, 'todo': sorted(want)})
                else:
                    _dispatch(60)
                    if not any(tag == n['tag'] for _t, tag, _x in _WORLD[0].firings):
                        _add(out, 'C20.boot.viewed', 'boot-not-released-after-view_events', case,
                             {'firings': 0}, {'firings': 1})
    schedule.unpause()


def _add(out, clause, sig, case, observed, expected, size=0):
    cur = out['violations'].get((clause, sig))
    if cur is None:
        out['violations'][(clause, sig)] = {'clause': clause, 'signature': sig, 'count': 1, 'input': case,
                                            'observed': observed, 'expected': expected, '_size': size}
    else:
        cur['count'] += 1
        if size < cur['_size']:
            cur.update({'input': case, 'observed': observed, 'expected': expected, '_size': size})


# ---------------------------------------------------------------- entry points
def run(tier: str, seed: int) -> dict:
    rng = random.Random(seed)
    out = {'cases': 0, 'violations': {}}
    specs = _all_specs()
    if not _accepted_by_compliance(specs):
        raise RuntimeError('C20 harness: tools.compliant.rule_10 rejects a specification of the bounded space')

    # part 1: delays
    instants = _instants(tier, rng)
    if tier == 'thorough':
        import multiprocessing

        nproc = min(16, os.cpu_count() or 1)
        size = max(1, len(instants) // (nproc * 4))
        chunks = [(instants[i: i + size], specs) for i in range(0, len(instants), size)]
        with multiprocessing.get_context('fork').Pool(nproc) as pool:
            results = pool.map(_delay_chunk, chunks, chunksize=1)
    else:
        results = [_delay_chunk((instants, specs))]
    delay_cases = 0
    for res in results:
        delay_cases += res['cases']
        for (clause, sig), v in res['violations'].items():
            cur = out['violations'].get((clause, sig))
            if cur is None:
                out['violations'][(clause, sig)] = {'clause': clause, 'signature': sig, '_size': 0, **v}
            else:
                cur['count'] += v['count']
                if v['input']['now'] < cur['input']['now']:
                    cur.update({'input': v['input'], 'observed': v['observed'], 'expected': v['expected']})
    out['cases'] += delay_cases
    _boot_delay(out)

    # part 2: due events are queued with all targets
    due_cases = 0
    silent_early = 0
    late_cases = 0
    for spec, fac, targets, m, off, mode in _due_cases(tier, rng):
        now = m + _dt.timedelta(seconds=off)
        n = {'tag': 'du.engine', 'factory': fac, 'events': [spec]}
        if mode != 'on-time':
            case = {'kind': 'late', 'node': n, 'targets': targets, 'moment': m.isoformat(), 'offset': off,
                    'mode': mode}
            late_cases += 1
            for clause, what, observed, expected in _late_case(n, targets, m, off, mode):
                _add(out, clause, f'{what}:{mode}:{spec["kind"]}', case, observed, expected)
            continue
        case = {'kind': 'due', 'node': n, 'targets': targets, 'now': now.isoformat(), 'moment': m.isoformat()}
        problems = _due_case(n, targets, now)
        due_cases += 1
        if off < -FIRE_WINDOW:  # not yet due: the statement does not say what must happen
            silent_early += 1
            problems = [p for p in problems if p[0] != 'C20.due']
        for clause, what, observed, expected in problems:
            _add(out, clause, f'{what}:{spec["kind"]}', case, observed, expected)
    out['cases'] += due_cases + late_cases
    _boot_defer(out)
    before = out['cases']
    _boot_viewed(out)
    viewed_cases = out['cases'] - before

    # part 3: recurrence
    scns = _scenarios(tier, rng)
    sim_steps = 0
    sample_hist = None
    for scn in scns:
        sim = _simulate(scn)
        sim_steps += len(sim['history'])
        if sample_hist is None:
            sample_hist = {'kind': 'recur', 'scenario': scn, 'history': sim['history'][:12]}
        for clause, sig, observed, expected in _check_recurs(scn, sim):
            size = len(scn['nodes']) * 100 + sum(len(n['events']) for n in scn['nodes'])
            _add(out, clause, sig, {'kind': 'recur', 'scenario': scn}, observed, expected,
                 size if clause == 'C20.recurs' else 0)
    out['cases'] += sim_steps

    violations = []
    for k in sorted(out['violations']):
        v = dict(out['violations'][k])
        v.pop('_size', None)
        violations.append(v)
    return {
        'cases': out['cases'],
        'distinct': delay_cases + due_cases + late_cases + viewed_cases + len(scns),
        'rule': (
            'delay: one case per (specification, instant) pair, all pairwise different; due: one case per '
            '(specification, factory, target set, moment, offset); late: one case per (specification, factory, target '
            'set, moment, seconds after the moment, late call | pause across the moment); boot+view: one case per '
            '(factory, number of view_events() calls, with/without a weekly event); recurrence: one case per step of a simulated '
            'history (timer firing, dispatch, completion), counted distinct per scenario'
        ),
        'exhaustive': tier == 'thorough',
        'samples': [
            {'kind': 'delay', 'spec': specs[37], 'now': instants[len(instants) // 2].isoformat()},
            {'kind': 'delay', 'spec': specs[-1], 'now': instants[0].isoformat()},
            sample_hist,
        ],
        'violations': violations,
        'clauses': CLAUSES,
        'instants': len(instants),
        'specifications': len(specs) + 1,
        'delay_cases': delay_cases,
        'due_cases': due_cases,
        'late_cases': late_cases,
        'boot_viewed_cases': viewed_cases,
        'due_cases_before_window_not_checked': silent_early,
        'scenarios': len(scns),
        'past_moments_note': _past_note(specs),
    }


def _past_note(specs) -> dict:
    '''not a violation (the statement only bounds the moment from above): how _delay treats a moment already passed today'''
    spec = specs[0]
    m = _moments(spec, _dt.datetime(2024, 1, 1, tzinfo=UTC), _dt.datetime(2024, 1, 9, tzinfo=UTC))[0]
    now = m + _dt.timedelta(hours=5)
    _NOW[0] = now
    try:
        d = schedule._delay(_event(spec)).total_seconds()  # pylint: disable=protected-access
    except Exception as e:  # pylint: disable=broad-exception-caught
        d = repr(e)
    return {'spec': spec, 'now': now.isoformat(), 'delay_s': d}


def replay(case: dict) -> dict:
    case = case.get('input', case)
    kind = case['kind']
    if kind == 'delay':
        schedule.booted.clear()
        problems = _check_delay(case['spec'], _event(case['spec']), _dt.datetime.fromisoformat(case['now']))
    elif kind == 'due':
        problems = _due_case(case['node'], case['targets'], _dt.datetime.fromisoformat(case['now']))
    elif kind == 'late':
        problems = _late_case(case['node'], case['targets'], _dt.datetime.fromisoformat(case['moment']),
                              case['offset'], case['mode'])
    elif kind == 'boot-viewed':
        out = {'cases': 0, 'violations': {}}
        _boot_viewed(out, only=case)
        problems = [(v['clause'], v['signature'], v['observed'], v['expected']) for v in out['violations'].values()]
    elif kind == 'recur':
        problems = _check_recurs(case['scenario'], _simulate(case['scenario']))
        problems = [p for p in problems if p[0] == 'C20.recurs'] or problems
    else:
        out = {'cases': 0, 'violations': {}}
        (_boot_delay if kind == 'boot-delay' else _boot_defer)(out)
        problems = [(v['clause'], v['signature'], v['observed'], v['expected']) for v in out['violations'].values()]
    if problems:
        return {'reproduced': True, 'clause': problems[0][0], 'signature': problems[0][1],
                'observed': problems[0][2], 'expected': problems[0][3]}
    return {'reproduced': False, 'observed': 'as specified', 'expected': 'as specified'}
