"""C10 - Life-cycle follows the documented state machine and always returns to rest (bounded stand-in).

Events of a history (JSON strings):
  'T:<name>_trigger'  fire that trigger of the real FSM on the harness thread
  'C:<i>'             the i-th outstanding background step (creation order) completes: its callable runs now
                      (completion time), then its Deferred fires (done()/errback) - all on the harness thread
  'E:new_data'        farm.ARCHIVE = True (what Hand._res / cmd_reset(archive) do); selects the deferred archive
Modes: doctest_=True (synchronous) and the real deferred branches with db.archive calling done() either before it
returns ('sync', like db.shelve) or as a separate later step ('async', like db.post).

Oracle (from the property statement + my own parse of pl/state.dot; nothing is taken from the code):
  C10.edge    every write of fsm.state is (source, trigger, dest) of a documented edge
  C10.reject  a trigger with no documented edge from the current state raises transitions.MachineError and
              changes nothing (state, transitioning, prior, priority, wait flags, poller slots, open_again,
              farm.ARCHIVE, outstanding steps, recorded side effects / printed lines)
  C10.reject.busy  a trigger that HAS a documented edge from the current state but is refused with
              transitions.MachineError (another transition is in progress: the transitioning guard is taken, e.g.
              archiving_trigger while the reload step of 'updating' is outstanding) is a rejected trigger too: the
              same comparison applies (state, transitioning, the name-mangled _FSM__prior, priority, ... unchanged,
              no state write, no recorded side effect)
  C10.rest    whenever no background step is outstanding after >= 1 accepted trigger:
              state in {running, gitting} and transitioning == active
  C10.active  is_pipeline_active() is True only if state == 'running' and transitioning == active
  C10.active.rest  ... and only if no background step (load, reload, archive, introspection) is outstanding
  C10.callers the guard the oracle assumes for the error path of a web submission is the guard in the code: the real
              Process.failure (fe.submit, fe.api.submit) fires running_trigger from gitting and from no other state
Every violation says whether its history can be produced by the real callers with their guards
('callers=guarded': starting_trigger at boot, gitting_trigger when active (fe submit step_1), running_trigger
when gitting (step_3/failure), archiving_trigger when active and farm.ARCHIVE (farm.dispatch), update_trigger at
any time (waiters' done() is unguarded)) or needs a trigger fired by hand that only the FSM itself fires
('callers=any').
"""

import collections
import random
import time

from . import _fsm_common as K

PROPERTY = 'C10'
BOUND = (
    'all histories from boot with <= 1+5 (thorough 1+6) trigger events out of the 8 documented triggers, any '
    'number of farm.ARCHIVE settings and every order of background completions relative to them, in 4 modes '
    '(doctest; deferred x db.archive sync/async, reopen True/False), merged on the observable configuration; '
    'continued to the fixpoint (<= 12 triggers) so that the sequences start from every reachable '
    'configuration; plus every un-merged history of <= 3 events (thorough: <= 5 events, 2 deferred modes) and '
    'seeded un-merged random walks (quick 150 x <=25 events, thorough 3000 x <=40); every trigger call of these '
    'histories that raises MachineError - undocumented from the state, or documented but refused while a '
    'transition is in progress - is compared field by field (including _FSM__prior) with the configuration before it; '
    'plus the guard of the real fe.submit / fe.api.submit Process.failure in each of the 8 states (C10.callers)'
)
CLAUSES = ['C10.edge', 'C10.reject', 'C10.reject.busy', 'C10.rest', 'C10.active', 'C10.active.rest', 'C10.callers']

MODES = [
    {'doctest': True, 'archive': 'sync', 'reopen': False},
    {'doctest': False, 'archive': 'sync', 'reopen': False},
    {'doctest': False, 'archive': 'async', 'reopen': True},
    {'doctest': False, 'archive': 'async', 'reopen': False},
]
REST = ('running', 'gitting')
HARD_CAP = 12


# The transitions the property statement names ("start, load, introspect, run; submit and back; archive and back
# to where it came from; update, archive, refresh"), written down here once; pl/state.dot must say the same.
STATEMENT = {
    ('starting', 'starting_trigger', 'loading'),  # start / boot, load
    ('loading', 'contemplation_trigger', 'contemplation'),  # introspect
    ('contemplation', 'running_trigger', 'running'),  # run
    ('running', 'gitting_trigger', 'gitting'),  # submit
    ('gitting', 'running_trigger', 'running'),  # ... and back
    ('running', 'archiving_trigger', 'archiving'),  # archive
    ('archiving', 'running_trigger', 'running'),  # ... and back to where it came from
    ('running', 'update_trigger', 'updating'),  # update
    ('updating', 'archiving_trigger', 'archiving'),  # archive
    ('archiving', 'updating_trigger', 'updating'),  # ... and back to where it came from
    ('updating', 'loading_trigger', 'loading'),  # refresh
}


def documented():
    edges = K.parse_dot()
    table = {(e['source'], e['trigger'], e['dest']) for e in edges}
    triggers = sorted({e['trigger'] for e in edges if e['trigger']} | {t for _, t, _ in STATEMENT})
    return edges, table, triggers


EDGES, DOT_TABLE, TRIGGERS = documented()
TABLE = STATEMENT & DOT_TABLE  # a move must be documented by both; a difference between the two is reported
ALLOWED = collections.defaultdict(set)
for _s, _t, _d in TABLE:
    ALLOWED[_s].add(_t)


def new_rig(mode):
    return K.Rig(doctest=mode['doctest'], archive_mode=mode['archive'], reopen_result=mode['reopen'])


def guarded(rig, event, first_trigger):
    '''could a real caller (with its guard) produce this event now?'''
    kind, _, arg = event.partition(':')
    if kind != 'T':
        return True
    f = rig.fsm
    active = f.state == 'running' and f.transitioning == K.Status.active and not rig.pool.steps
    if arg == 'starting_trigger':
        return first_trigger
    if arg == 'gitting_trigger':
        return active
    if arg == 'running_trigger':
        return f.state == 'gitting'
    if arg == 'archiving_trigger':
        return active and bool(K.farm.ARCHIVE)
    if arg == 'update_trigger':
        return True
    return False


def available(rig):
    ev = ['T:' + t for t in TRIGGERS]
    ev += ['C:%d' % i for i in range(len(rig.pool.steps))]
    if not K.farm.ARCHIVE:
        ev.append('E:new_data')
    return ev


def apply(rig, event):
    '''execute one event on the real code; returns the observation used by the oracle'''
    kind, _, arg = event.partition(':')
    obs = {
        'event': event,
        'before': rig.snapshot(),
        'effects_before': rig.effects(),
        'moves_from': len(rig.moves),
        'exc': None,
    }
    if kind == 'T':
        exc, _ = rig.call(getattr(rig.fsm, arg))
        obs['exc'] = exc
    elif kind == 'C':
        rig.call(rig.pool.complete, int(arg))
    elif kind == 'E':
        K.farm.ARCHIVE = True
    else:
        raise ValueError(event)
    obs['after'] = rig.snapshot()
    obs['effects_after'] = rig.effects()
    obs['moves'] = rig.moves[obs['moves_from'] :]
    obs['all_moves'] = rig.moves
    obs['active'] = rig.fsm.is_pipeline_active()
    return obs


def check(obs, accepted_before):
    '''the oracle for one event; returns (list of (clause, signature, observed, expected), accepted_after)'''
    out = []
    kind, _, arg = obs['event'].partition(':')
    before, after = obs['before'], obs['after']
    s0, t0 = before[0], before[1]
    changed = before != after or obs['effects_before'] != obs['effects_after'] or bool(obs['moves'])
    accepted = accepted_before
    for n, (src, trig, dst) in enumerate(obs['moves']):
        if (src, trig, dst) not in TABLE:
            out.append(
                (
                    'C10.edge',
                    f'edge:{src}-{trig}->{dst}',
                    {'move': [src, trig, dst], 'during': obs['event']},
                    'a documented (source, trigger, dest) edge',
                )
            )
        if src == 'archiving':
            came = [m for m in obs['all_moves'][: obs['moves_from'] + n] if m[2] == 'archiving']
            if came and came[-1][0] != dst:
                out.append(
                    (
                        'C10.edge',
                        f'archive-return:from-{came[-1][0]}-back-to-{dst}',
                        {'entered_archiving_from': came[-1][0], 'left_to': dst, 'trigger': trig},
                        'archiving goes back to where it came from',
                    )
                )
    if kind == 'T':
        if arg not in ALLOWED[s0]:
            if not isinstance(obs['exc'], K.MachineError):
                out.append(
                    (
                        'C10.reject',
                        f'reject:{s0}/{t0}:{arg}:no-MachineError',
                        {'raised': repr(obs['exc']), 'after': K.snap_dict(after)},
                        f'transitions.MachineError: {arg} has no documented edge from {s0}',
                    )
                )
            if changed:
                diff = {
                    k: [b, a]
                    for k, b, a in zip(K.SNAP_FIELDS, K.snap_dict(before).values(), K.snap_dict(after).values())
                    if a != b
                }
                if obs['effects_before'] != obs['effects_after']:
                    diff['side-effects'] = [list(obs['effects_before']), list(obs['effects_after'])]
                out.append(
                    (
                        'C10.reject',
                        f'reject:{s0}/{t0}:{arg}:changed:' + ','.join(sorted(diff)),
                        {'changed': diff, 'moves': [list(m) for m in obs['moves']]},
                        'nothing changes when a trigger is rejected',
                    )
                )
        else:
            if isinstance(obs['exc'], K.MachineError) and changed:
                # a documented edge, but the machine refused the trigger (a transition is in progress): rejected,
                # so nothing may have changed - in particular not the state to return to after archiving
                diff = {
                    k: [b, a]
                    for k, b, a in zip(K.SNAP_FIELDS, K.snap_dict(before).values(), K.snap_dict(after).values())
                    if a != b
                }
                if obs['effects_before'] != obs['effects_after']:
                    diff['side-effects'] = [list(obs['effects_before']), list(obs['effects_after'])]
                if obs['moves']:
                    diff['state-writes'] = [[], [list(m) for m in obs['moves']]]
                out.append(
                    (
                        'C10.reject.busy',
                        f'reject-busy:{s0}/{t0}:{arg}:changed:' + ','.join(sorted(diff)),
                        {'raised': repr(obs['exc']), 'changed': diff, 'outstanding_before': [list(o) for o in before[-1]]},
                        'nothing changes (state, transitioning, prior, ...) when a trigger is refused with MachineError',
                    )
                )
            if obs['exc'] is None or obs['moves']:
                accepted = True
    outstanding = after[-1]
    if obs['active']:
        if not (after[0] == 'running' and after[1] == 'active'):
            out.append(
                (
                    'C10.active',
                    f'active:{after[0]}/{after[1]}',
                    {'is_pipeline_active': True, 'state': after[0], 'transitioning': after[1]},
                    'is_pipeline_active() only when state==running and transitioning==active',
                )
            )
        if outstanding:
            out.append(
                (
                    'C10.active.rest',
                    'active-with-outstanding:' + '+'.join(k for k, _ in outstanding),
                    {'is_pipeline_active': True, 'outstanding': [list(o) for o in outstanding]},
                    'is_pipeline_active() only at rest: no background step outstanding',
                )
            )
    if accepted and not outstanding:
        if not (after[0] in REST and after[1] == 'active'):
            out.append(
                (
                    'C10.rest',
                    f'rest:{after[0]}/{after[1]}',
                    {'state': after[0], 'transitioning': after[1], 'outstanding': []},
                    'state in {running, gitting} and transitioning == active once all background steps completed',
                )
            )
    return out, accepted


def run_history(mode, history, check_all):
    '''replay a history on a fresh rig; oracle applied to every event (check_all) or to the last one only'''
    rig = new_rig(mode)
    accepted = False
    is_guarded = True
    found = []
    last = None
    for i, event in enumerate(history):
        kind, _, arg = event.partition(':')
        if kind == 'C' and int(arg) >= len(rig.pool.steps):
            return rig, found, None, accepted, is_guarded  # not executable (only possible in replay of bad input)
        is_guarded = is_guarded and guarded(rig, event, not any(e[0] == 'T' for e in history[:i]))
        last = apply(rig, event)
        vio, accepted = check(last, accepted)
        if check_all or i == len(history) - 1:
            for v in vio:
                found.append((v, i))
    return rig, found, last, accepted, is_guarded


class Collector:
    def __init__(self):
        self.best = {}
        self.order = []

    def add(self, mode, history, upto, v, is_guarded):
        clause, sig, observed, expected = v
        sig = sig + ('|callers=guarded' if is_guarded else '|callers=any')
        hist = list(history[: upto + 1])
        old = self.best.get((clause, sig))
        if old is None:
            self.order.append((clause, sig))
        if old is None or len(hist) < len(old['input']['history']):
            self.best[(clause, sig)] = {
                'clause': clause,
                'signature': sig,
                'input': {'mode': dict(mode), 'history': hist},
                'observed': observed,
                'expected': expected,
            }

    def result(self):
        return [self.best[k] for k in self.order]


def explore(mode, n_triggers, deadline, coll, stats, samples):
    '''layered breadth-first closure: layer = number of trigger events used'''
    rig = new_rig(mode)
    start = (rig.snapshot(), False)
    seen = {start: ()}
    layer = collections.deque([((), True)])
    nxt = collections.deque()
    depth = 0
    closed = False
    max_layer_with_new = 0
    while True:
        while layer:
            history, hist_guarded = layer.popleft()
            rig, _, _, _, _ = run_history(mode, history, False)
            events = available(rig)
            for event in events:
                if time.time() > deadline:
                    stats['timeout'] = True
                    return closed
                is_trigger = event.startswith('T:')
                if is_trigger and depth >= n_triggers:
                    continue
                h2 = history + (event,)
                rig2, found, last, accepted, g2 = run_history(mode, h2, False)
                stats['cases'] += 1
                stats['events'] += len(h2)
                if last['before'] != last['after'] or last['moves']:
                    stats['nontrivial'] += 1
                for v, idx in found:
                    coll.add(mode, h2, idx, v, g2)
                key = (rig2.snapshot(), accepted)
                if key not in seen:
                    seen[key] = h2
                    (nxt if is_trigger else layer).append((h2, g2))
                    if is_trigger:
                        max_layer_with_new = depth + 1
                    if len(h2) in (4, 6, 8, 10) and not any(len(x['history']) == len(h2) and x['mode'] == mode for x in samples) and mode != MODES[0]:
                        samples.append({'mode': dict(mode), 'history': list(h2), 'ends_in': K.snap_dict(rig2.snapshot())})
        if not nxt:
            closed = True
            break
        depth += 1
        if depth > HARD_CAP:
            break
        layer, nxt = nxt, collections.deque()
    stats['configs'] += len(seen)
    stats['fixpoint_triggers'] = max(stats.get('fixpoint_triggers', 0), max_layer_with_new)
    return closed


def enumerate_unmerged(mode, max_len, deadline, coll, stats):
    '''every history of at most max_len events (no merging at all); the oracle looks at the last event of each'''
    count = 0
    stack = [()]
    while stack:
        history = stack.pop()
        if time.time() > deadline:
            stats['timeout'] = True
            break
        rig, found, _, _, is_guarded = run_history(mode, history, False)
        if history:
            count += 1
            stats['cases'] += 1
            stats['events'] += len(history)
            for v, idx in found:
                coll.add(mode, history, idx, v, is_guarded)
        if len(history) < max_len:
            for event in reversed(available(rig)):
                stack.append(history + (event,))
    return count


def random_walks(rng, count, max_len, deadline, coll, stats):
    distinct = set()
    for _ in range(count):
        if time.time() > deadline:
            stats['timeout'] = True
            break
        mode = MODES[rng.randrange(len(MODES))]
        rig = new_rig(mode)
        accepted = False
        is_guarded = True
        history = []
        length = rng.randint(3, max_len)
        for i in range(length):
            events = available(rig)
            comps = [e for e in events if e.startswith('C:')]
            # half of the time let the background make progress, otherwise any event
            event = rng.choice(comps) if comps and rng.random() < 0.5 else rng.choice(events)
            is_guarded = is_guarded and guarded(rig, event, not any(e[0] == 'T' for e in history))
            history.append(event)
            obs = apply(rig, event)
            vio, accepted = check(obs, accepted)
            for v in vio:
                coll.add(mode, history, i, v, is_guarded)
        stats['cases'] += 1
        stats['events'] += len(history)
        distinct.add((MODES.index(mode), tuple(history)))
    return len(distinct)


def documentation_checks(coll):
    '''the diagram itself: arrows agree with the source/dest attributes, one edge per (source, trigger)'''
    for edge in sorted(DOT_TABLE ^ STATEMENT, key=str):
        where = 'only-in-state.dot' if edge in DOT_TABLE else 'missing-from-state.dot'
        coll.add(
            MODES[0],
            [],
            -1,
            (
                'C10.edge',
                f'dot:{where}:{edge[0]}-{edge[1]}->{edge[2]}',
                {'edge': list(edge), 'where': where},
                'pl/state.dot has exactly the transitions the property statement names',
            ),
            True,
        )
    seen = {}
    for e in EDGES:
        if e['arrow'] != (e['source'], e['dest']):
            coll.add(
                MODES[0],
                [],
                -1,
                (
                    'C10.edge',
                    f"dot:arrow-vs-attributes:{e['arrow'][0]}->{e['arrow'][1]}",
                    {'arrow': list(e['arrow']), 'source': e['source'], 'dest': e['dest'], 'trigger': e['trigger']},
                    'the drawn arrow and the source/dest attributes name the same edge',
                ),
                True,
            )
        k = (e['source'], e['trigger'])
        if k in seen and seen[k] != e['dest']:
            coll.add(
                MODES[0],
                [],
                -1,
                (
                    'C10.edge',
                    f'dot:ambiguous:{k[0]}:{k[1]}',
                    {'dests': sorted([seen[k], e['dest']])},
                    'one destination per (source, trigger)',
                ),
                True,
            )
        seen[k] = e['dest']


class _RecordingFSM:
    """stands for dawgie.context.fsm in the callers' guard check: remembers which triggers it was asked to fire"""

    def __init__(self, state):
        self.state = state
        self.fired = []

    def __getattr__(self, name):
        if name.endswith('_trigger'):
            return lambda *a, **k: self.fired.append(name)
        raise AttributeError(name)


class _FakeRequest:
    def __init__(self):
        self.written, self.finished = [], 0

    def write(self, data):
        self.written.append(data)

    def finish(self):
        self.finished += 1


def caller_guard_checks(coll):
    """the guards of the real callers that the oracle relies on when it labels a history `callers=guarded`: the error
    path of a web submission (fe.submit / fe.api.submit Process.failure, the real functions) fires running_trigger when
    the machine is in `gitting` and in no other state - it must never end a background step of another state by hand"""
    import importlib
    import os
    import shutil
    import tempfile

    import dawgie.context
    import dawgie.tools.submit

    states = sorted({e[0] for e in STATEMENT} | {e[2] for e in STATEMENT})
    tmp = tempfile.mkdtemp(prefix='verif_c10_repo_')
    saved = (getattr(dawgie.context, 'fsm', None), dawgie.context.ae_base_path, dawgie.tools.submit.mail_out)
    try:
        os.makedirs(os.path.join(tmp, '.git'))
        os.makedirs(os.path.join(tmp, 'ae'))
        dawgie.context.ae_base_path = os.path.join(tmp, 'ae')
        dawgie.tools.submit.mail_out = lambda *a, **k: None
        for modname in ('dawgie.fe.submit', 'dawgie.fe.api.submit'):
            mod = importlib.import_module(modname)
            for state in states:
                fsm = _RecordingFSM(state)
                dawgie.context.fsm = fsm
                try:
                    proc = mod.Process('0' * 40, lambda: None, _FakeRequest(), 'submission')
                    proc.failure(None)
                    got = list(fsm.fired)
                except Exception as e:  # pylint: disable=broad-except
                    got = ['raised %r' % e]
                want = ['running_trigger'] if state == 'gitting' else []
                if got != want:
                    coll.add(
                        MODES[0],
                        [],
                        -1,
                        (
                            'C10.callers',
                            f'caller-guard:{modname}.Process.failure:{state}',
                            {'state': state, 'triggers_fired': got},
                            'a failed submission fires running_trigger from gitting and nothing from any other state',
                        ),
                        True,
                    )
    finally:
        dawgie.context.fsm, dawgie.context.ae_base_path, dawgie.tools.submit.mail_out = saved
        shutil.rmtree(tmp, ignore_errors=True)


def run(tier: str, seed: int) -> dict:
    t0 = time.time()
    thorough = tier == 'thorough'
    deadline = t0 + (210 if thorough else 13)
    n_triggers = 1 + (6 if thorough else 5)
    coll = Collector()
    stats = collections.Counter()
    samples = []
    documentation_checks(coll)
    caller_guard_checks(coll)
    try:
        return _run(tier, seed, t0, thorough, deadline, n_triggers, coll, stats, samples)
    finally:
        K.scratch_remove()


def _run(tier, seed, t0, thorough, deadline, n_triggers, coll, stats, samples):
    closed_all = True
    # each mode is continued to its fixpoint (every reachable configuration expanded), which contains the stated
    # bound when it is reached within HARD_CAP trigger events
    for mode in MODES:
        closed = explore(mode, HARD_CAP, deadline, coll, stats, samples)
        closed_all = closed_all and closed
    bfs_cases = stats['cases']
    # the same space again without any merging, as far as it is affordable: independent of the abstraction
    plain_len = 5 if thorough else 3
    plain = 0
    for mode in (MODES[1:3] if thorough else MODES):
        plain += enumerate_unmerged(mode, plain_len, deadline, coll, stats)
    rng = random.Random(seed)
    walks = random_walks(
        rng, 3000 if thorough else 150, 40 if thorough else 25, t0 + (270 if thorough else 16), coll, stats
    )
    exhaustive = closed_all and not stats.get('timeout')
    return {
        'cases': int(stats['cases']),
        'distinct': int(stats['nontrivial'] + plain + walks),
        'rule': (
            'breadth-first over (configuration, event) pairs per mode: every pair is one replay of the real FSM '
            f'from boot plus the event; configurations merged on {list(K.SNAP_FIELDS)}; distinct = pairs whose '
            'event changed the configuration or moved the state, plus distinct random-walk histories. '
            f"The closure reached its fixpoint after {stats['fixpoint_triggers']} trigger events (bound asked: "
            f"{n_triggers}); {stats['configs']} configurations, {bfs_cases} pairs; then every un-merged history of "
            f"<= {plain_len} events ({plain} histories in {2 if thorough else 4} modes); {walks} random walks; "
            f"{stats['events']} events executed"
        ),
        'exhaustive': bool(exhaustive and stats['fixpoint_triggers'] <= HARD_CAP),
        'samples': samples[:5],
        'violations': coll.result(),
        'clauses': list(CLAUSES),
        'seconds': round(time.time() - t0, 2),
    }


def replay(case: dict) -> dict:
    inp = case.get('input', case)
    mode, history = inp['mode'], list(inp['history'])
    want = (case.get('clause'), (case.get('signature') or '').split('|callers=')[0])
    if not history:  # a finding about the diagram file itself
        coll = Collector()
        documentation_checks(coll)
        caller_guard_checks(coll)
        hits = [v for v in coll.result() if v['signature'].split('|callers=')[0] == want[1]]
        return {
            'reproduced': bool(hits),
            'observed': hits[0]['observed'] if hits else None,
            'expected': hits[0]['expected'] if hits else case.get('expected'),
        }
    try:
        rig, found, last, _, _ = run_history(mode, history, False)
    finally:
        K.scratch_remove()
    if last is None:
        return {'reproduced': False, 'observed': 'history not executable on this tree', 'expected': case.get('expected')}
    for (clause, sig, observed, expected), _ in found:
        if want[0] is None or (clause, sig) == want:
            return {'reproduced': True, 'observed': observed, 'expected': expected}
    return {
        'reproduced': False,
        'observed': {'ends_in': K.snap_dict(rig.snapshot()), 'other': [f[0][1] for f in found]},
        'expected': case.get('expected'),
    }
