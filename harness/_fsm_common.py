"""Shared rig for the bounded harnesses c10 (life-cycle FSM) and c12 (submit waiters).

What is real and what is fake
-----------------------------
real   : dawgie.pl.state.FSM (every method), transitions.Machine, pl/state.dot as loaded by FSM.__init__,
         dawgie.tools.submit.Priority, dawgie.pl.farm.something_to_do/notify_all/clear,
         dawgie.pl.schedule.view_doing, dawgie.fe.submit.Process / dawgie.fe.api.submit.Process (c12).
fake   : twisted.internet.threads.deferToThread -> Pool.defer: returns a real twisted Deferred, remembers the
         callable; the callable is executed ON THE HARNESS THREAD AT COMPLETION TIME (Pool.complete), then the
         Deferred is fired with its result (or Failure).  Pollers (is_*_done) have two harness-visible steps:
         Pool.poll (the poller looks; time.sleep raises StillPolling => "still polling") and Pool.deliver (the
         reactor runs the Deferred callbacks, i.e. done()).
         Recording fakes: dawgie.pl.scan.for_factories, dawgie.db.open/close/reopen/archive/metrics,
         dawgie.pl.schedule.build/periodics, dawgie.pl.version.current/persistent, dawgie.pl.farm.plow,
         FSM._security/_gui/_logging (non-doctest branch only), dawgie.pl.resources.distribution/last_runid,
         dawgie.context._rev, dawgie.pl.state.RollbackImporter, dawgie.pl.LogFailure.log (records, then real),
         pydot.Dot.write_svg (no file is written), pydot.graph_from_dot_file (memoised parse of the real file).
probe  : ProbeFSM subclasses the real FSM only to observe writes of `state`; every trigger attribute of the
         instance is wrapped to know which trigger a move belongs to.  No FSM method is overridden.
"""

import io
import logging
import os
import re
import shutil
import sys
import tempfile
import threading

REPO = os.environ.get('VERIF_REPO', '/repo')
sys.dont_write_bytecode = True  # importing the tree under test must not leave __pycache__ files in it

import dawgie  # noqa: E402

assert dawgie.__file__.startswith(REPO + '/Python/'), (
    f'dawgie imported from {dawgie.__file__}, expected under {REPO}/Python/ '
    '(set PYTHONPATH=$VERIF_REPO/Python)'
)

import collections  # noqa: E402
import pydot  # noqa: E402
import transitions  # noqa: E402
import twisted.internet.defer  # noqa: E402
import twisted.internet.threads  # noqa: E402
import twisted.python.failure  # noqa: E402

import dawgie.context  # noqa: E402
import dawgie.db  # noqa: E402
import dawgie.pl  # noqa: E402
import dawgie.pl.farm  # noqa: E402
import dawgie.pl.resources  # noqa: E402
import dawgie.pl.scan  # noqa: E402
import dawgie.pl.schedule  # noqa: E402
import dawgie.pl.state  # noqa: E402
import dawgie.pl.version  # noqa: E402

state_mod = dawgie.pl.state
farm = dawgie.pl.farm
schedule = dawgie.pl.schedule
Status = state_mod.Status
MachineError = transitions.MachineError

DOT_FILE = os.path.join(os.path.dirname(state_mod.__file__), 'state.dot')

CURRENT = None  # the Rig the fakes report to
_SCRATCH = {'dir': None}


def scratch_dir():
    '''the one scratch directory of this process (FSM.__init__ / FSM._archive create directories below
    dawgie.context.fe_path; c12 keeps its fake git work tree here); removed by scratch_remove()'''
    if _SCRATCH['dir'] is None:
        _SCRATCH['dir'] = tempfile.mkdtemp(prefix='verif-fsm-')
    dawgie.context.fe_path = os.path.join(_SCRATCH['dir'], 'fe')
    return _SCRATCH['dir']


def scratch_remove():
    if _SCRATCH['dir'] is not None:
        shutil.rmtree(_SCRATCH['dir'], ignore_errors=True)
        _SCRATCH['dir'] = None


# --------------------------------------------------------------------------------------------------------------
# independent reading of the documented diagram
# --------------------------------------------------------------------------------------------------------------
def parse_dot(path=DOT_FILE):
    """my own (regex) parse of state.dot -> list of dict(source,trigger,dest,before,after); independent of pydot"""
    with open(path, 'rt', encoding='utf-8') as f:
        text = f.read()
    text = re.sub(r'/\*.*?\*/', '', text, flags=re.S)
    edges = []
    for m in re.finditer(r'(\w+)\s*->\s*(\w+)\s*\[(.*?)\]\s*;', text, flags=re.S):
        attrs = {}
        for k, v in re.findall(r'(\w+)\s*=\s*("(?:[^"\\]|\\.)*"|[^,\]\s]+)', m.group(3)):
            attrs[k] = v.strip('"')
        edges.append(
            {
                'arrow': (m.group(1), m.group(2)),
                'source': attrs.get('source'),
                'trigger': attrs.get('trigger'),
                'dest': attrs.get('dest'),
                'before': attrs.get('before'),
                'after': attrs.get('after'),
            }
        )
    return edges


# --------------------------------------------------------------------------------------------------------------
# manually stepped deferToThread
# --------------------------------------------------------------------------------------------------------------
class StillPolling(Exception):
    '''raised by the patched time.sleep: the poller's condition is false and its wait is still active'''


class _TimeShim:
    def __init__(self, real):
        self._real = real

    def sleep(self, _secs):
        raise StillPolling()

    def __getattr__(self, name):
        return getattr(self._real, name)


class Step:
    __slots__ = ('ident', 'kind', 'fn', 'args', 'kwds', 'deferred', 'phase', 'result')

    def __init__(self, ident, kind, fn, args, kwds, deferred):
        self.ident = ident
        self.kind = kind
        self.fn = fn
        self.args = args
        self.kwds = kwds
        self.deferred = deferred
        self.phase = 'pending'  # pending -> (exited ->) gone
        self.result = None


POLLERS = ('is_crew_done', 'is_doing_done', 'is_todo_done')


class Pool:
    def __init__(self, rig):
        self.rig = rig
        self.steps = []
        self.count = 0

    def defer(self, fn, *args, **kwds):
        d = twisted.internet.defer.Deferred()
        self.steps.append(Step(self.count, getattr(fn, '__name__', repr(fn)), fn, args, kwds, d))
        self.count += 1
        return d

    def add_raw(self, kind, fn):
        self.steps.append(Step(self.count, kind, fn, (), {}, None))
        self.count += 1

    def kinds(self):
        return tuple((s.kind, s.phase) for s in self.steps)

    def find(self, kind):
        for i, s in enumerate(self.steps):
            if s.kind == kind:
                return i
        return None

    def lifecycle(self):
        return [s for s in self.steps if s.kind not in POLLERS]

    def _run(self, step):
        try:
            return True, step.fn(*step.args, **step.kwds)
        except StillPolling:
            raise
        except BaseException:  # pylint: disable=broad-except
            return False, twisted.python.failure.Failure()

    def _fire(self, step, ok, value):
        if step.deferred is None:
            if not ok:
                self.rig.swallowed.append(('raw-step', step.kind, value.type.__name__))
            return
        d = step.deferred
        if ok:
            d.callback(value)
        else:
            d.errback(value)
        if isinstance(d.result, twisted.python.failure.Failure):
            # nobody handled it: in production this is "Unhandled error in Deferred" at GC time
            self.rig.swallowed.append(('unhandled', step.kind, d.result.type.__name__))
            d.addErrback(lambda _f: None)

    def complete(self, index):
        '''background step finishes: run the callable now, then fire the Deferred (both on this thread)'''
        step = self.steps[index]
        if step.phase == 'exited':
            return self.deliver(index)
        try:
            ok, value = self._run(step)
        except StillPolling:
            return False
        self.steps.remove(step)
        self._fire(step, ok, value)
        return True

    def poll(self, index):
        '''the poller looks once (and keeps looking while its loop condition holds); True if it exited'''
        step = self.steps[index]
        assert step.phase == 'pending'
        try:
            ok, value = self._run(step)
        except StillPolling:
            return False
        step.phase = 'exited'
        step.result = (ok, value)
        return True

    def deliver(self, index):
        '''the reactor thread runs the callbacks of an exited step (done())'''
        step = self.steps[index]
        assert step.phase == 'exited'
        self.steps.remove(step)
        self._fire(step, *step.result)
        return True


# --------------------------------------------------------------------------------------------------------------
# recording fakes (installed once, report to CURRENT)
# --------------------------------------------------------------------------------------------------------------
def _rec(name, ret=None):
    def fake(*_a, **_k):
        if CURRENT is not None:
            CURRENT.log.append(name)
        return ret() if callable(ret) else ret

    fake.__name__ = 'fake_' + name.replace('.', '_')
    return fake


class FakeRollbackImporter:
    def __init__(self):
        CURRENT.log.append('RollbackImporter()')

    def reload(self):
        CURRENT.log.append('RollbackImporter.reload')


def _fake_db_archive(done):
    CURRENT.log.append('db.archive')
    if CURRENT.archive_mode == 'sync':  # like dawgie.db.shelve: done() before archive returns
        done()
    else:  # like dawgie.db.post: done() when the dump process ends
        CURRENT.pool.add_raw('archive_done', done)


def _fake_db_reopen():
    CURRENT.log.append('db.reopen')
    return CURRENT.reopen_result


_INSTALLED = False
_REAL = {}


def install():
    global _INSTALLED  # pylint: disable=global-statement
    if _INSTALLED:
        return
    _INSTALLED = True
    logging.disable(logging.CRITICAL)
    # failures nobody handles are recorded by Pool._fire / seen by the oracles; keep them off stderr
    import twisted.logger  # pylint: disable=import-outside-toplevel

    twisted.logger.globalLogBeginner.beginLoggingTo(
        [lambda _event: None], redirectStandardIO=False, discardBuffer=True
    )

    # pydot: parse the real file once; never write the svg (FSM.__init__ would write it below the tree)
    graph = pydot.graph_from_dot_file(DOT_FILE)
    _REAL['graph_from_dot_file'] = pydot.graph_from_dot_file

    def cached_graph(path, *a, **k):
        if os.path.abspath(path) == os.path.abspath(DOT_FILE):
            return graph
        return _REAL['graph_from_dot_file'](path, *a, **k)

    pydot.graph_from_dot_file = cached_graph
    pydot.Dot.write_svg = lambda self, path, *a, **k: True
    dawgie.context.site_path = ''

    twisted.internet.threads.deferToThread = lambda fn, *a, **k: CURRENT.pool.defer(fn, *a, **k)
    state_mod.time = _TimeShim(state_mod.time)
    state_mod.RollbackImporter = FakeRollbackImporter

    dawgie.pl.scan.for_factories = _rec('scan.for_factories', lambda: collections.defaultdict(list))
    dawgie.db.open = _rec('db.open')
    dawgie.db.close = _rec('db.close')
    dawgie.db.reopen = _fake_db_reopen
    dawgie.db.archive = _fake_db_archive
    dawgie.db.metrics = _rec('db.metrics', lambda: [])
    schedule.build = _rec('schedule.build')
    schedule.periodics = _rec('schedule.periodics')
    dawgie.pl.version.current = _rec('version.current')
    dawgie.pl.version.persistent = _rec('version.persistent')
    dawgie.pl.resources.distribution = _rec('resources.distribution', lambda: {})
    dawgie.pl.resources.last_runid = _rec('resources.last_runid', -1)
    dawgie.context._rev = _rec('context._rev', 'rev')  # pylint: disable=protected-access
    farm.plow = _rec('farm.plow')

    for name in ('notify_all', 'clear'):
        real = getattr(farm, name)

        def both(*a, _real=real, _name=name, **k):
            CURRENT.log.append('farm.' + _name)
            return _real(*a, **k)

        setattr(farm, name, both)

    for name in ('_security', '_gui', '_logging'):
        real = getattr(state_mod.FSM, name)

        def method(self, _real=real, _name=name):
            if CURRENT.doctest:
                return _real(self)  # the doctest branch only prints
            CURRENT.log.append('FSM.' + _name)
            return None

        setattr(state_mod.FSM, name, method)

    real_log = dawgie.pl.LogFailure.log

    def log_failure(self, err):
        typ = err.type.__name__ if isinstance(err, twisted.python.failure.Failure) else type(err).__name__
        CURRENT.swallowed.append(('LogFailure', getattr(self, '_LogFailure__label', '?'), typ))
        return real_log(self, err)

    dawgie.pl.LogFailure.log = log_failure


class ProbeFSM(state_mod.FSM):
    '''the real FSM; only the storage of `state` is observed'''

    @property
    def state(self):
        return self.__dict__['_probe_state']

    @state.setter
    def state(self, value):
        old = self.__dict__.get('_probe_state')
        self.__dict__['_probe_state'] = value
        rig = self.__dict__.get('_probe_rig')
        if rig is not None and old is not None:
            rig.moves.append((old, rig.trigger_stack[-1] if rig.trigger_stack else None, value))


class Rig:
    '''one FSM plus everything around it; exactly one Rig is live at a time.

    reuse=False: a new FSM is constructed (FSM.__init__ runs).  reuse=True (the enumerations, for speed): the FSM
    constructed first in this process for the same (doctest, initial state) is taken again after its instance
    dictionary has been put back, generically, to the copy taken right after FSM.__init__ (threading.Event
    members get their flag back); the callers cross-check reuse against construction on a sample of histories.
    '''

    _pristine = {}

    def __init__(self, doctest=False, archive_mode='sync', reopen_result=False, initial_state='starting', reuse=False):
        global CURRENT  # pylint: disable=global-statement
        install()
        scratch_dir()
        CURRENT = self
        self.doctest = doctest
        self.archive_mode = archive_mode
        self.reopen_result = reopen_result
        self.log = []  # recorded side effects
        self.swallowed = []  # failures that ended in an errback / nowhere
        self.moves = []  # (source, trigger, dest) for every write of fsm.state
        self.trigger_stack = []
        self.trigger_calls = []  # (trigger, state before, outcome, world at the call)
        self.stdout = io.StringIO()
        self.pool = Pool(self)
        farm.ARCHIVE = False
        for lst in (farm._busy, farm._cloud, farm._cluster, farm._jobs, farm._workers):  # pylint: disable=protected-access
            lst.clear()
        farm._time.clear()  # pylint: disable=protected-access
        schedule.que.clear()
        cached = Rig._pristine.get((doctest, initial_state)) if reuse else None
        if cached is None:
            real_stdout = sys.stdout
            sys.stdout = self.stdout
            try:
                self.fsm = ProbeFSM(initial_state=initial_state, doctest_=doctest)
            finally:
                sys.stdout = real_stdout
            if reuse:
                flags = {k: v.is_set() for k, v in self.fsm.__dict__.items() if isinstance(v, threading.Event)}
                Rig._pristine[(doctest, initial_state)] = (self.fsm, dict(self.fsm.__dict__), flags)
        else:
            self.fsm, saved, flags = cached
            self.fsm.__dict__.clear()
            self.fsm.__dict__.update(saved)
            for k, was_set in flags.items():
                if was_set:
                    saved[k].set()
                else:
                    saved[k].clear()
        self.fsm.__dict__['_probe_rig'] = self
        self.fsm.wait_timeout = 0  # Event.wait(0): same answer, no 1 ms stall per question
        dawgie.context.fsm = self.fsm
        self.triggers = sorted(t for t in self.fsm.machine.events if not t.startswith('to_'))
        for t in self.triggers:
            self._wrap_trigger(t)

    def _wrap_trigger(self, name):
        real = getattr(self.fsm, name)

        def trigger(*a, **k):
            before = self.fsm.state
            world = world_now()
            self.trigger_stack.append(name)
            try:
                result = real(*a, **k)
            except BaseException as e:  # pylint: disable=broad-except
                self.trigger_calls.append((name, before, type(e).__name__, world))
                raise
            finally:
                self.trigger_stack.pop()
            self.trigger_calls.append((name, before, 'ok' if result else 'false', world))
            return result

        trigger.__name__ = name
        setattr(self.fsm, name, trigger)

    def call(self, fn, *a, **k):
        '''run fn with stdout captured (doctest mode prints); returns (exception or None, value)'''
        real_stdout = sys.stdout
        sys.stdout = self.stdout
        try:
            return None, fn(*a, **k)
        except Exception as e:  # pylint: disable=broad-except
            return e, None
        finally:
            sys.stdout = real_stdout

    def effects(self):
        '''everything the fakes recorded so far (doctest mode: what the FSM printed)'''
        return len(self.log), self.stdout.tell()

    def snapshot(self):
        f = self.fsm
        return (
            f.state,
            f.transitioning.name,
            f._FSM__prior,  # pylint: disable=protected-access
            f.priority.name if f.priority is not None else None,
            (not f.wait_on_crew.is_set(), not f.wait_on_doing.is_set(), not f.wait_on_todo.is_set()),
            (f.crew_thread is not None, f.doing_thread is not None, f.todo_thread is not None),
            bool(f.open_again),
            bool(farm.ARCHIVE),
            f.time_machine is not None,
            self.pool.kinds(),
        )


SNAP_FIELDS = (
    'state',
    'transitioning',
    'prior',
    'priority',
    'waiting(crew,doing,todo)',
    'thread_slot(crew,doing,todo)',
    'open_again',
    'farm.ARCHIVE',
    'time_machine',
    'outstanding',
)


def snap_dict(snap):
    return {k: (list(v) if isinstance(v, tuple) else v) for k, v in zip(SNAP_FIELDS, snap)}


def world_now():
    '''(a worker is busy, something is executing, the work queue is not empty) read from the real modules'''
    return (bool(farm._busy), bool(schedule.view_doing()), bool(schedule.que))  # pylint: disable=protected-access
